// Operations of the `coll` engine, their text form (line protocol), the `std::vec::Vec` reference
// semantics, and the type-erased adapter (`VecDyn`) over the real vector types.

use std::ops::Bound;

pub const RANGE_FORMS: [&str; 9] = [
    "a..b", "a..", "..b", "..=b", "a..=b", "..", "(Excluded(a-1), Excluded(b))", "(Excluded(a-1), Included(b-1))", "(Excluded(a-1), Unbounded)",
];
thread_local! {
    /// how often each form of `RangeBounds` was handed to a range-taking operation
    static RANGE_FORM_HIST: RefCell<[u64; 9]> = const { RefCell::new([0; 9]) };
}
pub fn range_form_hist() -> [u64; 9] {
    RANGE_FORM_HIST.with(|h| *h.borrow())
}

/// The range `start..end` (normalised; possibly invalid: `start > end`, `end > len`) in one of ALL the forms a
/// `RangeBounds<usize>` can take — `a..b`, `a..`, `..b`, `..=b`, `a..=b`, `..`, and `(Bound, Bound)` tuples with an
/// EXCLUDED start (no range syntax produces those).  Every form is an exact re-encoding of `(start, end)` for a
/// vector of length `len`; which one is used is a fixed function of the arguments and the run's seed, so the
/// implementation and its `std` twin get the same one.  E.g. `(len + 1, len)` ↦ `(Excluded(len), Unbounded)`.
pub fn form_range(start: usize, end: usize, len: usize) -> (Bound<usize>, Bound<usize>) {
    let mut h = (start as u64).wrapping_mul(0x9E37_79B9_7F4A_7C15) ^ (end as u64).wrapping_mul(0xC2B2_AE3D_27D4_EB4F) ^ (len as u64).wrapping_mul(0x1656_67B1_9E37_79F9) ^ seed();
    h ^= h >> 29;
    h = h.wrapping_mul(0xBF58_476D_1CE4_E5B9);
    h ^= h >> 32;
    // the applicable forms
    let mut forms: Vec<u8> = vec![0];
    if end == len { forms.push(1); }
    if start == 0 { forms.push(2); }
    if start == 0 && end >= 1 { forms.push(3); }
    if end >= 1 { forms.push(4); }
    if start == 0 && end == len { forms.push(5); }
    if start >= 1 { forms.push(6); forms.push(6); }
    if start >= 1 && end >= 1 { forms.push(7); forms.push(7); }
    if start >= 1 && end == len { forms.push(8); forms.push(8); }
    let f = forms[(h % forms.len() as u64) as usize];
    RANGE_FORM_HIST.with(|hh| hh.borrow_mut()[f as usize] += 1);
    match f {
        0 => (Bound::Included(start), Bound::Excluded(end)),
        1 => (Bound::Included(start), Bound::Unbounded),
        2 => (Bound::Unbounded, Bound::Excluded(end)),
        3 => (Bound::Unbounded, Bound::Included(end - 1)),
        4 => (Bound::Included(start), Bound::Included(end - 1)),
        5 => (Bound::Unbounded, Bound::Unbounded),
        6 => (Bound::Excluded(start - 1), Bound::Excluded(end)),
        7 => (Bound::Excluded(start - 1), Bound::Included(end - 1)),
        _ => (Bound::Excluded(start - 1), Bound::Unbounded),
    }
}

/// what `std` makes of that very form on a slice of this length: `Ok((start, end))`, or `Err` if it panics
pub fn std_norm(v: &[u64], start: usize, end: usize) -> Result<(usize, usize), ()> {
    let r = form_range(start, end, v.len());
    match catch_unwind(AssertUnwindSafe(|| {
        let part = &v[r];
        let off = (part.as_ptr() as usize - v.as_ptr() as usize) / std::mem::size_of::<u64>();
        (off, off + part.len())
    })) {
        Ok(x) => Ok(x),
        Err(_) => Err(()),
    }
}

#[derive(Clone, Debug, PartialEq)]
pub enum Op {
    Retain,
    DedupBy,
    Truncate(usize),
    Clear,
    Pop,
    Remove(usize),
    SwapRemove(usize),
    Push(u64),
    Insert(usize, u64),
    ExtendClone(usize),
    Resize(usize, u64),
    /// `drain(start..end)`, then `next` (`f`) / `next_back` (`b`) per script, then drop (`d`) or `keep_rest` (`k`)
    Drain(usize, usize, Vec<u8>, u8),
    /// `extract_if(pred)`, `calls` × `next()`, drop
    ExtractIf(usize),
    /// `into_iter()`, pulls per script, drop of the iterator (consumes the vector)
    IntoIter(Vec<u8>),
    /// `map_in_place(f)` (consumes the vector, yields one of the same type)
    MapInPlace,
    /// `append(owned slice with these ids)`
    Append(Vec<u64>),
    // ---- operations checked by the direct oracles only (not replayed on the model)
    Reserve(usize),
    ReserveExact(usize),
    ShrinkToFit,
    ExtendWithinClone(usize, usize),
    ResizeWith(usize),
    PopIf,
    DedupByKey,
    /// `splice(start..end, ids)`, then `next` (`f`) / `next_back` (`b`) per script (`Splice` is double-ended), drop of the `Splice`; the last field caps the lower
    /// bound `replace_with.size_hint()` reports (large: exact; small: the `collected` fallback of `Splice::drop` runs)
    /// The very last field: a LYING source — `size_hint().0` is that number whatever is left (over-reporting up
    /// to values whose reservation ends in the "capacity overflow" panic).
    Splice(usize, usize, Vec<u64>, Vec<u8>, usize, Option<usize>),
    /// `BumpVec::shrink_to(min_capacity)`
    ShrinkTo(usize),
    /// `Extend::extend(iter)`: source ids, cap of the honest lower bound, the lie (see `Splice`)
    ExtendIter(Vec<u64>, usize, Option<usize>),
    /// the inner operation through another route of the API (same model operation, same std twin):
    /// 1 = the `try_*` twin (`Err` counts as the refusal), 2 = `push_mut` / `insert_mut` (the returned reference
    /// must point at the new element), 3 = `push_with(|| value)`, 4 = `dedup()` (`PartialEq`) for `dedup_by`
    Alt(u8, Box<Op>),
}

fn script_text(s: &[u8]) -> String {
    if s.is_empty() { "-".to_string() } else { String::from_utf8_lossy(s).to_string() }
}

impl Op {
    /// run a side effect while building the operation (keeps the generator's `match` arms expressions)
    pub fn also(self, f: impl FnOnce()) -> Op {
        f();
        self
    }
    pub fn name(&self) -> &'static str {
        match self {
            Op::Retain => "retain",
            Op::DedupBy => "dedup_by",
            Op::Truncate(_) => "truncate",
            Op::Clear => "clear",
            Op::Pop => "pop",
            Op::Remove(_) => "remove",
            Op::SwapRemove(_) => "swap_remove",
            Op::Push(_) => "push",
            Op::Insert(..) => "insert",
            Op::ExtendClone(_) => "extend_clone",
            Op::Resize(..) => "resize",
            Op::Drain(..) => "drain",
            Op::ExtractIf(_) => "extract_if",
            Op::IntoIter(_) => "into_iter",
            Op::MapInPlace => "map_in_place",
            Op::Append(_) => "append",
            Op::Reserve(_) => "reserve",
            Op::ReserveExact(_) => "reserve_exact",
            Op::ShrinkToFit => "shrink_to_fit",
            Op::ExtendWithinClone(..) => "extend_from_within_clone",
            Op::ResizeWith(_) => "resize_with",
            Op::PopIf => "pop_if",
            Op::DedupByKey => "dedup_by_key",
            Op::Splice(..) => "splice",
            Op::ShrinkTo(_) => "shrink_to",
            Op::ExtendIter(..) => "extend_iter",
            Op::Alt(k, inner) if *k >= 100 => match **inner {
                Op::Splice(..) => "splice_source_panics",
                _ => "extend_iter_source_panics",
            },
            Op::Alt(3, _) => "push_with",
            Op::Alt(6, inner) => match **inner {
                Op::Drain(..) => "drain_forget",
                _ => "extract_if_forget",
            },
            Op::Alt(_, inner) => inner.name(),
        }
    }
    /// is the operation replayed on the Lean model (correspondence), or checked by the oracles only?
    pub fn modelled(&self) -> bool {
        // (an iterator that is LEAKED instead of dropped: oracles only)
        !matches!(self, Op::Alt(6, inner) if !matches!(**inner, Op::Drain(..))) && !matches!(self, Op::Alt(k, _) if *k >= 100)
    }
    /// does the operation take the vector by value?
    pub fn consumes(&self) -> bool {
        matches!(self, Op::IntoIter(_) | Op::MapInPlace)
    }
    /// positional arguments of the line protocol
    pub fn args(&self) -> String {
        match self {
            Op::Retain | Op::DedupBy | Op::Clear | Op::Pop => String::new(),
            Op::Truncate(n) | Op::Remove(n) | Op::SwapRemove(n) | Op::ExtendClone(n) => format!(" {n}"),
            Op::Push(id) => format!(" {id}"),
            Op::Insert(i, id) => format!(" {i} {id}"),
            Op::Resize(n, id) => format!(" {n} {id}"),
            Op::Drain(s, e, sc, f) => format!(" {s} {e} s={} fin={}", script_text(sc), *f as char),
            Op::ExtractIf(c) => format!(" {c}"),
            Op::IntoIter(sc) => format!(" s={}", script_text(sc)),
            Op::MapInPlace => String::new(),
            Op::Append(ids) => format!(" src={}", csv(ids)),
            Op::Reserve(n) | Op::ReserveExact(n) | Op::ResizeWith(n) => format!(" {n}"),
            Op::ShrinkToFit | Op::PopIf | Op::DedupByKey => String::new(),
            Op::ExtendWithinClone(a, b) => format!(" {a} {b}"),
            Op::ShrinkTo(n) => format!(" {n}"),
            Op::ExtendIter(ids, h, None) => format!(" src={} hint={h}", csv(ids)),
            Op::ExtendIter(ids, h, Some(l)) => format!(" src={} hint={h} lie={l} maxcap={}", csv(ids), isize::MAX as usize / std::mem::size_of::<E>()),
            Op::Alt(1, inner) => format!("{} via=try", inner.args()),
            Op::Alt(k, inner) if *k >= 100 => format!("{} source_panics_at={}", inner.args(), *k - 100),
            Op::Alt(_, inner) => inner.args(),
            Op::Splice(a, b, ids, k, h, None) => format!(" {a} {b} src={} pulls={} hint={h}", csv(ids), script_text(k)),
            Op::Splice(a, b, ids, k, h, Some(l)) => format!(" {a} {b} src={} pulls={} hint={h} lie={l} maxcap={}", csv(ids), script_text(k), isize::MAX as usize / std::mem::size_of::<E>()),
        }
    }
    /// does the operation need spare capacity / is it unavailable on `BumpBox<[T]>`?
    pub fn grows(&self) -> bool {
        if let Op::Alt(_, inner) = self {
            return inner.grows();
        }
        matches!(
            self,
            Op::Push(_) | Op::Insert(..) | Op::ExtendClone(_) | Op::Resize(..) | Op::Append(_) | Op::Reserve(_) | Op::ReserveExact(_) | Op::ExtendWithinClone(..) | Op::ResizeWith(_) | Op::Splice(..) | Op::ExtendIter(..)
        )
    }
    /// number of additional elements the operation needs room for (given the current length)
    pub fn additional(&self, len: usize) -> usize {
        match self {
            Op::Push(_) => 1,
            Op::Insert(i, _) => usize::from(*i <= len),
            Op::ExtendClone(n) => *n,
            Op::Resize(n, _) => n.saturating_sub(len),
            Op::Append(ids) => ids.len(),
            Op::Reserve(n) | Op::ReserveExact(n) => *n,
            Op::ExtendWithinClone(a, b) => if a <= b && *b <= len { b - a } else { 0 },
            Op::ResizeWith(n) => n.saturating_sub(len),
            Op::ExtendIter(ids, _, _) => ids.len(),
            Op::Alt(_, inner) => inner.additional(len),
            Op::Splice(a, b, ids, _, _, _) => if a <= b && *b <= len { ids.len().saturating_sub(b - a) } else { 0 },
            _ => 0,
        }
    }
}

/// `std::vec::Vec<u64>` executing the same operation with the same (panic-free) callback outcomes.
/// `Err(())`: std panics (out-of-range argument).  Returns the text of the returned value.
pub fn std_apply(v: &mut Vec<u64>, op: &Op, o: &[Oc]) -> Result<(String, usize), ()> {
    let consumed = Cell::new(0usize);
    let mut q: VecDeque<u64> = o
        .iter()
        .map(|x| match x {
            Oc::Ret(v) => *v,
            Oc::Panic => unreachable!("std reference is only run on panic-free oracles"),
        })
        .collect();
    let mut next = || {
        consumed.set(consumed.get() + 1);
        q.pop_front().expect("oracle too short for the std reference")
    };
    let r = match op {
        Op::Retain => {
            v.retain_mut(|x| {
                std_log_args(*x, NOARG);
                next() != 0
            });
            String::new()
        }
        Op::DedupBy => {
            v.dedup_by(|a, b| {
                std_log_args(*a, *b);
                next() != 0
            });
            String::new()
        }
        Op::Truncate(n) => {
            v.truncate(*n);
            String::new()
        }
        Op::Clear => {
            v.clear();
            String::new()
        }
        Op::Pop => match v.pop() {
            None => "none".into(),
            Some(x) => format!("some:{x}"),
        },
        Op::Remove(i) => {
            if *i >= v.len() {
                return Err(());
            }
            v.remove(*i).to_string()
        }
        Op::SwapRemove(i) => {
            if *i >= v.len() {
                return Err(());
            }
            v.swap_remove(*i).to_string()
        }
        Op::Push(id) => {
            v.push(*id);
            String::new()
        }
        Op::Insert(i, id) => {
            if *i > v.len() {
                return Err(());
            }
            v.insert(*i, *id);
            String::new()
        }
        Op::ExtendClone(n) => {
            for _ in 0..*n {
                v.push(next());
            }
            String::new()
        }
        Op::Resize(n, id) => {
            if *n <= v.len() {
                v.truncate(*n);
            } else {
                // std clones n-len-1 times and moves the value in last
                for _ in 0..(*n - v.len() - 1) {
                    v.push(next());
                }
                v.push(*id);
            }
            String::new()
        }
        Op::Drain(start, end, script, fin) => {
            // (std's own reading of the form of the range that the implementation gets)
            let (start, end) = &std_norm(v, *start, *end)?;
            let mut range: VecDeque<u64> = v[*start..*end].iter().copied().collect();
            let mut ys = Vec::new();
            for c in script {
                let y = if *c == b'f' { range.pop_front() } else { range.pop_back() };
                ys.push(y.map_or("none".to_string(), |x| x.to_string()));
            }
            let mut out: Vec<u64> = v[..*start].to_vec();
            if *fin == b'k' {
                out.extend(range.iter().copied());
            }
            out.extend_from_slice(&v[*end..]);
            *v = out;
            if ys.is_empty() { "-".to_string() } else { ys.join("/") }
        }
        Op::ExtractIf(calls) => {
            let mut kept = Vec::new();
            let mut out = Vec::new();
            let mut i = 0;
            let mut calls_left = *calls;
            while calls_left > 0 && i < v.len() {
                // one `next()`: scan until an element is extracted
                let mut found = false;
                while i < v.len() {
                    let x = v[i];
                    i += 1;
                    std_log_args(x, NOARG);
                    if next() != 0 {
                        out.push(x);
                        found = true;
                        break;
                    }
                    kept.push(x);
                }
                if !found {
                    break;
                }
                calls_left -= 1;
            }
            kept.extend_from_slice(&v[i..]);
            *v = kept;
            csv(&out)
        }
        Op::IntoIter(script) => {
            let mut range: VecDeque<u64> = v.iter().copied().collect();
            let mut ys = Vec::new();
            for c in script {
                let y = if *c == b'f' { range.pop_front() } else { range.pop_back() };
                ys.push(y.map_or("none".to_string(), |x| x.to_string()));
            }
            v.clear();
            if ys.is_empty() { "-".to_string() } else { ys.join("/") }
        }
        Op::MapInPlace => {
            for x in v.iter_mut() {
                std_log_args(*x, NOARG);
                *x = next();
            }
            String::new()
        }
        Op::Append(ids) => {
            v.extend_from_slice(ids);
            String::new()
        }
        Op::Reserve(_) | Op::ReserveExact(_) | Op::ShrinkToFit => String::new(),
        Op::ShrinkTo(n) => {
            v.shrink_to(*n);
            String::new()
        }
        Op::Alt(6, inner) => {
            // the iterator is leaked (`mem::forget`): whatever `Vec` itself is left with
            match &**inner {
                Op::Drain(start, end, script, _) => {
                    let (start, end) = std_norm(v, *start, *end)?;
                    let mut ys = Vec::new();
                    let mut d = v.drain(start..end);
                    for c in script {
                        let y = if *c == b'f' { d.next() } else { d.next_back() };
                        ys.push(y.map_or("none".to_string(), |x| x.to_string()));
                    }
                    std::mem::forget(d);
                    if ys.is_empty() { "-".to_string() } else { ys.join("/") }
                }
                Op::ExtractIf(calls) => {
                    let mut out = Vec::new();
                    let mut it = v.extract_if(.., |x| {
                        std_log_args(*x, NOARG);
                        next() != 0
                    });
                    for _ in 0..*calls {
                        match it.next() {
                            Some(x) => out.push(x),
                            None => break,
                        }
                    }
                    std::mem::forget(it);
                    csv(&out)
                }
                other => unreachable!("no leaking route for {:?}", other),
            }
        }
        Op::Alt(k, inner) if *k >= 100 => {
            // the source iterator panics at its `next()` call number k - 100
            drop(next);
            set_src_panic_at(Some(*k as usize - 100));
            let r = std_apply(v, inner, o);
            set_src_panic_at(None);
            return r;
        }
        Op::Alt(5, _) => {
            // the semantic route: the predicate is computed from the pair it is handed
            let mut n = 0usize;
            v.dedup_by(|a, b| {
                std_log_args(*a, *b);
                n += 1;
                near_ids(*a, *b)
            });
            consumed.set(n);
            String::new()
        }
        Op::Alt(_, inner) => {
            drop(next);
            return std_apply(v, inner, o);
        }
        Op::ExtendIter(ids, hint, lie) => {
            let r = catch_unwind(AssertUnwindSafe(|| v.extend(Hinted { inner: ids.clone().into_iter(), cap: *hint, lie: *lie, panic_at: src_panic_at(), calls: 0 })));
            if r.is_err() { "!".to_string() } else { String::new() }
        }
        Op::ExtendWithinClone(a, b) => {
            let (a, b) = std_norm(v, *a, *b)?;
            for _ in a..b {
                v.push(next());
            }
            String::new()
        }
        Op::ResizeWith(n) => {
            if *n <= v.len() {
                v.truncate(*n);
            } else {
                for _ in 0..(*n - v.len()) {
                    v.push(next());
                }
            }
            String::new()
        }
        Op::PopIf => {
            if v.is_empty() {
                "none".into()
            } else if {
                std_log_args(*v.last().unwrap(), NOARG);
                next() != 0
            } {
                format!("some:{}", v.pop().unwrap())
            } else {
                "none".into()
            }
        }
        Op::DedupByKey => {
            v.dedup_by_key(|x| {
                std_log_args(*x, NOARG);
                next()
            });
            String::new()
        }
        Op::Splice(a, b, ids, pulls, hint, lie) => {
            let (a, b) = &std_norm(v, *a, *b)?;
            // the same (possibly lying) source; `Vec`'s own `Splice::drop` may panic with "capacity overflow"
            let ys = RefCell::new(Vec::new());
            let r = catch_unwind(AssertUnwindSafe(|| {
                let mut sp = v.splice(*a..*b, Hinted { inner: ids.clone().into_iter(), cap: *hint, lie: *lie, panic_at: src_panic_at(), calls: 0 });
                for c in pulls {
                    let y = if *c == b'f' { sp.next() } else { sp.next_back() };
                    ys.borrow_mut().push(y.map_or("none".to_string(), |x| x.to_string()));
                }
            }));
            let ys = ys.into_inner();
            let t = if ys.is_empty() { "-".to_string() } else { ys.join("/") };
            if r.is_err() { format!("!{t}") } else { t }
        }
    };
    drop(next);
    Ok((r, consumed.get()))
}

thread_local! {
    static SRC_PANIC_AT: Cell<Option<usize>> = const { Cell::new(None) };
}
pub fn src_panic_at() -> Option<usize> {
    SRC_PANIC_AT.with(|c| c.get())
}
pub fn set_src_panic_at(k: Option<usize>) {
    SRC_PANIC_AT.with(|c| c.set(k));
}

/// an iterator whose `size_hint` lower bound is capped (an honest under-estimate) or, with `lie`, a fixed
/// number whatever is left (a lying source; `Iterator::size_hint` is only a hint, a wrong one must be safe)
pub struct Hinted<I> {
    pub inner: I,
    pub cap: usize,
    pub lie: Option<usize>,
    /// the `next()` call with this index (0-based) PANICS instead of yielding (the item stays with the source)
    pub panic_at: Option<usize>,
    pub calls: usize,
}
impl<I: ExactSizeIterator> Iterator for Hinted<I> {
    type Item = I::Item;
    fn next(&mut self) -> Option<I::Item> {
        let k = self.calls;
        self.calls += 1;
        if self.panic_at == Some(k) {
            std::panic::panic_any(CbPanic);
        }
        self.inner.next()
    }
    fn size_hint(&self) -> (usize, Option<usize>) {
        (self.lie.unwrap_or(self.inner.len().min(self.cap)), None)
    }
}

pub type DynVec<'a> = Box<dyn VecDyn<'a> + 'a>;

/// type-erased view of one real vector
pub trait VecDyn<'a> {
    fn ids(&self) -> Vec<u64>;
    fn len(&self) -> usize;
    fn cap(&self) -> usize;
    fn addr(&self) -> usize;
    /// runs the operation on the real type; values that are returned are stashed; the text of the
    /// returned value is the result
    fn apply(&mut self, op: &Op) -> String;
    /// operations that take the vector by value; the vector they produce (if any) is returned
    fn consume(self: Box<Self>, op: &Op) -> (String, Option<DynVec<'a>>);
    /// `split_off(start..end)` where the type has it (the returned part has the same type)
    fn split_off_dyn(&mut self, start: usize, end: usize) -> Option<DynVec<'a>>;
    /// `shrink_to_fit` where the type has it
    fn shrink_dyn(&mut self) -> bool;
    /// allocates a small pattern-filled block from the arena the vector lives in, where the vector gives access to
    /// it (`BumpVec::allocator()`): a vector that kept a stale buffer pointer gets overwritten by it
    fn poke(&self) -> bool;
}

/// see `VecDyn::poke`
pub trait Poke {
    fn poke_arena(&self) -> bool {
        false
    }
}
impl<'a, T> Poke for BumpBox<'a, [T]> {}
impl<'a, T> Poke for FixedBumpVec<'a, T> {}

fn pulls_text<T: Elem>(it: &mut dyn DoubleEndedIterator<Item = T>, script: &[u8]) -> String {
    let mut ys = Vec::new();
    for c in script {
        let y = if *c == b'f' { it.next() } else { it.next_back() };
        ys.push(match y {
            None => "none".to_string(),
            Some(e) => val_text(e),
        });
    }
    if ys.is_empty() { "-".to_string() } else { ys.join("/") }
}

fn opt_text<T: Elem>(x: Option<T>) -> String {
    match x {
        None => "none".into(),
        Some(e) => {
            let s = format!("some:{}", e.ident());
            e.stash();
            s
        }
    }
}
fn val_text<T: Elem>(e: T) -> String {
    let s = e.ident().to_string();
    e.stash();
    s
}

macro_rules! impl_vecdyn {
    (@grow $s:ident, $op:ident, $T:ident, yes) => {
        match $op {
            Op::Push(id) => {
                $s.push($T::make(*id));
                String::new()
            }
            Op::Insert(i, id) => {
                $s.insert(*i, $T::make(*id));
                String::new()
            }
            Op::ExtendClone(n) => {
                // the source slice lives outside the arena; its elements are not part of the accounting
                let src: Vec<SrcElem<$T>> = (0..*n).map(|_| SrcElem::new()).collect();
                let src_ref: &[$T] = SrcElem::as_slice(&src);
                $s.extend_from_slice_clone(src_ref);
                String::new()
            }
            Op::Resize(n, id) => {
                $s.resize(*n, $T::make(*id));
                String::new()
            }
            Op::Append(ids) => {
                let src: Vec<$T> = ids.iter().map(|i| $T::make(*i)).collect();
                $s.append(src);
                String::new()
            }
            Op::Reserve(n) => {
                $s.reserve(*n);
                String::new()
            }
            Op::ExtendWithinClone(a, b) => {
                $s.extend_from_within_clone(form_range(*a, *b, $s.len()));
                String::new()
            }
            Op::ResizeWith(n) => {
                $s.resize_with(*n, $T::gen_cb);
                String::new()
            }
            Op::PopIf => opt_text($s.pop_if($T::pred)),
            Op::Alt(k, _) if *k >= 100 => $s.extra($op),
            Op::Alt(k, inner) => {
                match (*k, &**inner) {
                    (1, Op::Push(id)) => {
                        if $s.try_push($T::make(*id)).is_err() {
                            try_err()
                        }
                    }
                    (1, Op::Insert(i, id)) => {
                        if $s.try_insert(*i, $T::make(*id)).is_err() {
                            try_err()
                        }
                    }
                    (1, Op::Reserve(n)) => {
                        if $s.try_reserve(*n).is_err() {
                            try_err()
                        }
                    }
                    (1, Op::ExtendClone(n)) => {
                        let src: Vec<SrcElem<$T>> = (0..*n).map(|_| SrcElem::new()).collect();
                        if $s.try_extend_from_slice_clone(SrcElem::as_slice(&src)).is_err() {
                            try_err()
                        }
                    }
                    (1, Op::Resize(n, id)) => {
                        if $s.try_resize(*n, $T::make(*id)).is_err() {
                            try_err()
                        }
                    }
                    (1, Op::ResizeWith(n)) => {
                        if $s.try_resize_with(*n, $T::gen_cb).is_err() {
                            try_err()
                        }
                    }
                    (1, Op::Append(ids)) => {
                        let src: Vec<$T> = ids.iter().map(|i| $T::make(*i)).collect();
                        if $s.try_append(src).is_err() {
                            try_err()
                        }
                    }
                    (1, Op::ExtendWithinClone(a, b)) => {
                        if $s.try_extend_from_within_clone(form_range(*a, *b, $s.len())).is_err() {
                            try_err()
                        }
                    }
                    (2, Op::Push(id)) => {
                        let p = {
                            let r = $s.push_mut($T::make(*id));
                            if !$T::ZST && r.ident() != *id {
                                note_bad_ref();
                            }
                            r as *mut $T as usize
                        };
                        if !$T::ZST && $s.as_slice().last().map(|e| e as *const $T as usize) != Some(p) {
                            note_bad_ref();
                        }
                    }
                    (2, Op::Insert(i, id)) => {
                        let p = {
                            let r = $s.insert_mut(*i, $T::make(*id));
                            if !$T::ZST && r.ident() != *id {
                                note_bad_ref();
                            }
                            r as *mut $T as usize
                        };
                        if !$T::ZST && $s.as_slice().get(*i).map(|e| e as *const $T as usize) != Some(p) {
                            note_bad_ref();
                        }
                    }
                    (3, Op::Push(id)) => {
                        let id = *id;
                        $s.push_with(|| $T::make(id));
                    }
                    (k, o) => unreachable!("no route {k} for {:?}", o),
                }
                String::new()
            }
            other => $s.extra(other),
        }
    };
    (@grow $s:ident, $op:ident, $T:ident, no) => {
        unreachable!("operation {:?} is not available on this type", $op)
    };
    (@split $s:ident, $a:ident, $b:ident, yes) => {
        Some(Box::new($s.split_off(form_range($a, $b, $s.len()))))
    };
    (@split $s:ident, $a:ident, $b:ident, no) => {
        None
    };
    (@shrink $s:ident, yes) => {{
        $s.shrink_to_fit();
        true
    }};
    (@shrink $s:ident, no) => {
        false
    };
    ([$($gen:tt)*] $ty:ty, $T:ident, cap = |$c:ident| $cap:expr, grow = $g:ident, split = $sp:ident, shrink = $sh:ident) => {
        impl<$($gen)*> VecDyn<'a> for $ty {
            fn ids(&self) -> Vec<u64> {
                self.as_slice().iter().map(|e| e.ident()).collect()
            }
            fn len(&self) -> usize {
                <$ty>::len(self)
            }
            fn cap(&self) -> usize {
                let $c = self;
                $cap
            }
            fn addr(&self) -> usize {
                self.as_ptr() as usize
            }
            fn apply(&mut self, op: &Op) -> String {
                let s = self;
                match op {
                    Op::Retain => {
                        s.retain($T::pred);
                        String::new()
                    }
                    Op::DedupBy => {
                        s.dedup_by($T::same);
                        String::new()
                    }
                    Op::Alt(4, inner) if **inner == Op::DedupBy => {
                        s.dedup();
                        String::new()
                    }
                    Op::Alt(5, inner) if **inner == Op::DedupBy => {
                        s.dedup_by($T::same_sem);
                        String::new()
                    }
                    Op::Truncate(n) => {
                        s.truncate(*n);
                        String::new()
                    }
                    Op::Clear => {
                        s.clear();
                        String::new()
                    }
                    Op::Pop => opt_text(s.pop()),
                    Op::Remove(i) => val_text(s.remove(*i)),
                    Op::SwapRemove(i) => val_text(s.swap_remove(*i)),
                    Op::Drain(start, end, script, fin) => {
                        let mut d = s.drain(form_range(*start, *end, s.len()));
                        let t = pulls_text(&mut d, script);
                        if *fin == b'k' {
                            d.keep_rest();
                        } else {
                            drop(d);
                        }
                        t
                    }
                    Op::DedupByKey => {
                        s.dedup_by_key($T::key_cb);
                        String::new()
                    }
                    Op::Alt(6, inner) => match &**inner {
                        Op::Drain(start, end, script, _) => {
                            let mut d = s.drain(form_range(*start, *end, s.len()));
                            let t = pulls_text(&mut d, script);
                            std::mem::forget(d);
                            t
                        }
                        Op::ExtractIf(calls) => {
                            let mut it = s.extract_if($T::pred);
                            let mut ids = Vec::new();
                            for _ in 0..*calls {
                                match it.next() {
                                    Some(e) => {
                                        ids.push(e.ident());
                                        e.stash();
                                    }
                                    None => break,
                                }
                            }
                            std::mem::forget(it);
                            csv(&ids)
                        }
                        other => unreachable!("no leaking route for {:?}", other),
                    },
                    Op::ExtractIf(calls) => {
                        let mut it = s.extract_if($T::pred);
                        let mut ids = Vec::new();
                        for _ in 0..*calls {
                            match it.next() {
                                Some(e) => {
                                    ids.push(e.ident());
                                    e.stash();
                                }
                                None => break,
                            }
                        }
                        drop(it);
                        csv(&ids)
                    }
                    other => impl_vecdyn!(@grow s, other, $T, $g),
                }
            }
            fn consume(self: Box<Self>, op: &Op) -> (String, Option<DynVec<'a>>) {
                match op {
                    Op::IntoIter(script) => {
                        let mut it = (*self).into_iter();
                        let t = pulls_text(&mut it, script);
                        drop(it);
                        (t, None)
                    }
                    Op::MapInPlace => {
                        let new = (*self).map_in_place($T::map_cb);
                        (String::new(), Some(Box::new(new)))
                    }
                    _ => unreachable!("not a consuming operation"),
                }
            }
            fn split_off_dyn(&mut self, start: usize, end: usize) -> Option<DynVec<'a>> {
                let s = self;
                impl_vecdyn!(@split s, start, end, $sp)
            }
            fn shrink_dyn(&mut self) -> bool {
                let s = self;
                impl_vecdyn!(@shrink s, $sh)
            }
            fn poke(&self) -> bool {
                Poke::poke_arena(self)
            }
        }
    };
}

/// operations that only some of the growing types have
pub trait Extra {
    fn extra(&mut self, op: &Op) -> String;
}
impl<'a, T: Elem> Extra for FixedBumpVec<'a, T> {
    fn extra(&mut self, op: &Op) -> String {
        unreachable!("operation {:?} is not available on FixedBumpVec", op)
    }
}
macro_rules! impl_extra {
    ($S:ty) => {
        impl<'a, T: Elem> Extra for BumpVec<T, &'a Bump<Global, $S>> {
            fn extra(&mut self, op: &Op) -> String {
                match op {
                    Op::ReserveExact(n) => {
                        self.reserve_exact(*n);
                        String::new()
                    }
                    Op::ShrinkToFit => {
                        self.shrink_to_fit();
                        String::new()
                    }
                    Op::ShrinkTo(n) => {
                        self.shrink_to(*n);
                        String::new()
                    }
                    Op::Alt(k, inner) if *k >= 100 => {
                        set_src_panic_at(Some(*k as usize - 100));
                        self.extra(inner)
                    }
                    Op::ExtendIter(ids, hint, lie) => {
                        let src: Vec<T> = ids.iter().map(|i| T::make(*i)).collect();
                        self.extend(Hinted { inner: src.into_iter(), cap: *hint, lie: *lie, panic_at: src_panic_at(), calls: 0 });
                        String::new()
                    }
                    Op::Splice(a, b, ids, pulls, hint, lie) => {
                        let src: Vec<T> = ids.iter().map(|i| T::make(*i)).collect();
                        let mut sp = self.splice(form_range(*a, *b, self.len()), Hinted { inner: src.into_iter(), cap: *hint, lie: *lie, panic_at: src_panic_at(), calls: 0 });
                        let mut ys = Vec::new();
                        for c in pulls {
                            ys.push(match if *c == b'f' { sp.next() } else { sp.next_back() } {
                                None => "none".to_string(),
                                Some(e) => val_text(e),
                            });
                        }
                        drop(sp);
                        if ys.is_empty() { "-".to_string() } else { ys.join("/") }
                    }
                    other => unreachable!("operation {:?} is not available on BumpVec", other),
                }
            }
        }
        impl<'a, T> Poke for BumpVec<T, &'a Bump<Global, $S>> {
            fn poke_arena(&self) -> bool {
                let bump: &Bump<Global, $S> = *self.allocator();
                let n = 8 + (self.len() % 5) * 24;
                let block = bump.alloc_slice_fill(n, 0xA7u8);
                block.iter().all(|b| *b == 0xA7)
            }
        }
        impl<'a, T> Poke for MutBumpVec<T, &'a mut Bump<Global, $S>> {}
        impl<'a, T: Elem> Extra for MutBumpVec<T, &'a mut Bump<Global, $S>> {
            fn extra(&mut self, op: &Op) -> String {
                match op {
                    Op::ReserveExact(n) => {
                        self.reserve_exact(*n);
                        String::new()
                    }
                    other => unreachable!("operation {:?} is not available on MutBumpVec", other),
                }
            }
        }
    };
}
impl_extra!(S1U);
impl_extra!(S1D);
impl_extra!(S8U);
impl_extra!(S16D);

/// an element of a borrowed source slice (`extend_from_slice_clone`): same layout as `T`, but it is
/// neither created through `Elem::make` nor dropped, so it stays out of the drop accounting
#[repr(transparent)]
pub struct SrcElem<T>(std::mem::ManuallyDrop<T>);
impl<T: Elem> SrcElem<T> {
    fn new() -> Self {
        SrcElem(std::mem::ManuallyDrop::new(T::raw(u64::MAX - 1)))
    }
    fn as_slice(v: &[SrcElem<T>]) -> &[T] {
        // SAFETY: repr(transparent) over ManuallyDrop<T>, itself repr(transparent) over T
        unsafe { std::slice::from_raw_parts(v.as_ptr().cast::<T>(), v.len()) }
    }
}

impl_vecdyn!(['a, T: Elem] BumpBox<'a, [T]>, T, cap = |v| v.len(), grow = no, split = yes, shrink = no);
impl_vecdyn!(['a, T: Elem] FixedBumpVec<'a, T>, T, cap = |v| v.capacity(), grow = yes, split = yes, shrink = no);

macro_rules! impl_for_settings {
    ($S:ty) => {
        impl_vecdyn!(['a, T: Elem] BumpVec<T, &'a Bump<Global, $S>>, T, cap = |v| v.capacity(), grow = yes, split = yes, shrink = yes);
        impl_vecdyn!(['a, T: Elem] MutBumpVec<T, &'a mut Bump<Global, $S>>, T, cap = |v| v.capacity(), grow = yes, split = no, shrink = no);
    };
}
/// `MutBumpVecRev`: pushes go to the front; only the operations the type has
macro_rules! impl_vecdyn_rev {
    ($S:ty) => {
        impl<'a, T: Elem> VecDyn<'a> for MutBumpVecRev<T, &'a mut Bump<Global, $S>> {
            fn ids(&self) -> Vec<u64> {
                self.as_slice().iter().map(|e| e.ident()).collect()
            }
            fn len(&self) -> usize {
                MutBumpVecRev::len(self)
            }
            fn cap(&self) -> usize {
                self.capacity()
            }
            /// the END of the buffer (the elements sit in front of it): stable while nothing is reallocated
            fn addr(&self) -> usize {
                self.as_ptr() as usize + MutBumpVecRev::len(self) * std::mem::size_of::<T>()
            }
            fn apply(&mut self, op: &Op) -> String {
                let s = self;
                match op {
                    Op::Truncate(n) => {
                        s.truncate(*n);
                        String::new()
                    }
                    Op::Clear => {
                        s.clear();
                        String::new()
                    }
                    Op::Pop => opt_text(s.pop()),
                    Op::Remove(i) => val_text(s.remove(*i)),
                    Op::SwapRemove(i) => val_text(s.swap_remove(*i)),
                    Op::Push(id) => {
                        s.push(T::make(*id));
                        String::new()
                    }
                    Op::Insert(i, id) => {
                        s.insert(*i, T::make(*id));
                        String::new()
                    }
                    Op::ExtendClone(n) => {
                        let src: Vec<SrcElem<T>> = (0..*n).map(|_| SrcElem::new()).collect();
                        let src_ref: &[T] = SrcElem::as_slice(&src);
                        s.extend_from_slice_clone(src_ref);
                        String::new()
                    }
                    Op::Resize(n, id) => {
                        s.resize(*n, T::make(*id));
                        String::new()
                    }
                    Op::Append(ids) => {
                        let src: Vec<T> = ids.iter().map(|i| T::make(*i)).collect();
                        s.append(src);
                        String::new()
                    }
                    Op::Reserve(n) => {
                        s.reserve(*n);
                        String::new()
                    }
                    Op::ReserveExact(n) => {
                        s.reserve_exact(*n);
                        String::new()
                    }
                    Op::ResizeWith(n) => {
                        s.resize_with(*n, T::gen_cb);
                        String::new()
                    }
                    Op::PopIf => opt_text(s.pop_if(T::pred)),
                    Op::ExtendWithinClone(a, b) => {
                        s.extend_from_within_clone(form_range(*a, *b, s.len()));
                        String::new()
                    }
                    Op::Alt(k, inner) => {
                        match (*k, &**inner) {
                            (1, Op::Push(id)) => {
                                if s.try_push(T::make(*id)).is_err() {
                                    try_err()
                                }
                            }
                            (1, Op::Insert(i, id)) => {
                                if s.try_insert(*i, T::make(*id)).is_err() {
                                    try_err()
                                }
                            }
                            (1, Op::Reserve(n)) => {
                                if s.try_reserve(*n).is_err() {
                                    try_err()
                                }
                            }
                            (1, Op::ExtendClone(n)) => {
                                let src: Vec<SrcElem<T>> = (0..*n).map(|_| SrcElem::new()).collect();
                                if s.try_extend_from_slice_clone(SrcElem::as_slice(&src)).is_err() {
                                    try_err()
                                }
                            }
                            (1, Op::Resize(n, id)) => {
                                if s.try_resize(*n, T::make(*id)).is_err() {
                                    try_err()
                                }
                            }
                            (1, Op::ResizeWith(n)) => {
                                if s.try_resize_with(*n, T::gen_cb).is_err() {
                                    try_err()
                                }
                            }
                            (1, Op::Append(ids)) => {
                                let src: Vec<T> = ids.iter().map(|i| T::make(*i)).collect();
                                if s.try_append(src).is_err() {
                                    try_err()
                                }
                            }
                            (2, Op::Push(id)) => {
                                let p = {
                                    let r = s.push_mut(T::make(*id));
                                    if !T::ZST && r.ident() != *id {
                                        note_bad_ref();
                                    }
                                    r as *mut T as usize
                                };
                                if !T::ZST && s.as_slice().first().map(|e| e as *const T as usize) != Some(p) {
                                    note_bad_ref();
                                }
                            }
                            (2, Op::Insert(i, id)) => {
                                let p = {
                                    let r = s.insert_mut(*i, T::make(*id));
                                    if !T::ZST && r.ident() != *id {
                                        note_bad_ref();
                                    }
                                    r as *mut T as usize
                                };
                                if !T::ZST && s.as_slice().get(*i).map(|e| e as *const T as usize) != Some(p) {
                                    note_bad_ref();
                                }
                            }
                            (3, Op::Push(id)) => {
                                let id = *id;
                                s.push_with(|| T::make(id));
                            }
                            (k, o) => unreachable!("no route {k} for {:?}", o),
                        }
                        String::new()
                    }
                    other => unreachable!("operation {:?} is not available on MutBumpVecRev", other),
                }
            }
            fn consume(self: Box<Self>, op: &Op) -> (String, Option<DynVec<'a>>) {
                match op {
                    Op::IntoIter(script) => {
                        let mut it = (*self).into_iter();
                        let t = pulls_text(&mut it, script);
                        drop(it);
                        (t, None)
                    }
                    _ => unreachable!("not a consuming operation of MutBumpVecRev"),
                }
            }
            fn split_off_dyn(&mut self, _start: usize, _end: usize) -> Option<DynVec<'a>> {
                None
            }
            fn shrink_dyn(&mut self) -> bool {
                false
            }
            fn poke(&self) -> bool {
                false
            }
        }
    };
}
impl_vecdyn_rev!(S1U);
impl_vecdyn_rev!(S1D);
impl_vecdyn_rev!(S8U);
impl_vecdyn_rev!(S16D);

/// reference semantics of `MutBumpVecRev` on the sequence `as_slice()` shows (front = index 0):
/// `std::collections::VecDeque` with front and back mirrored
pub fn std_apply_rev(v: &mut Vec<u64>, op: &Op, o: &[Oc]) -> Result<(String, usize), ()> {
    let mut d: VecDeque<u64> = v.iter().copied().collect();
    let mut used = 0usize;
    let vals: Vec<u64> = o.iter().map(|x| match x { Oc::Ret(v) => *v, Oc::Panic => unreachable!() }).collect();
    if let Op::Alt(_, inner) = op {
        return std_apply_rev(v, inner, o);
    }
    let r = match op {
        Op::Truncate(n) => {
            // keeps the LAST n elements
            while d.len() > *n {
                d.pop_front();
            }
            String::new()
        }
        Op::Clear => {
            d.clear();
            String::new()
        }
        Op::Pop => match d.pop_front() {
            None => "none".into(),
            Some(x) => format!("some:{x}"),
        },
        Op::Remove(i) => {
            if *i >= d.len() {
                return Err(());
            }
            d.remove(*i).unwrap().to_string()
        }
        Op::SwapRemove(i) => {
            if *i >= d.len() {
                return Err(());
            }
            d.swap_remove_front(*i).unwrap().to_string()
        }
        Op::Push(id) => {
            d.push_front(*id);
            String::new()
        }
        Op::Insert(i, id) => {
            if *i > d.len() {
                return Err(());
            }
            d.insert(*i, *id);
            String::new()
        }
        Op::ExtendClone(n) => {
            // the source slice ends up in front, in its own order: its clones are made back to front
            for k in 0..*n {
                d.push_front(vals[k]);
                used += 1;
            }
            String::new()
        }
        Op::Resize(n, id) => {
            if *n <= d.len() {
                while d.len() > *n {
                    d.pop_front();
                }
            } else {
                for k in 0..(*n - d.len() - 1) {
                    d.push_front(vals[k]);
                    used += 1;
                }
                d.push_front(*id);
            }
            String::new()
        }
        Op::Append(ids) => {
            for x in ids.iter().rev() {
                d.push_front(*x);
            }
            String::new()
        }
        Op::IntoIter(script) => {
            let mut ys = Vec::new();
            for c in script {
                let y = if *c == b'f' { d.pop_front() } else { d.pop_back() };
                ys.push(y.map_or("none".to_string(), |x| x.to_string()));
            }
            d.clear();
            if ys.is_empty() { "-".to_string() } else { ys.join("/") }
        }
        Op::Reserve(_) | Op::ReserveExact(_) => String::new(),
        Op::ResizeWith(n) => {
            if *n <= d.len() {
                while d.len() > *n {
                    d.pop_front();
                }
            } else {
                for k in 0..(*n - d.len()) {
                    d.push_front(vals[k]);
                    used += 1;
                }
            }
            String::new()
        }
        Op::ExtendWithinClone(a, b) => {
            let (a, b) = &std_norm(d.make_contiguous(), *a, *b)?;
            // the clones are made back to front and each goes in front of the previous one: the copy of the range
            // ends up in front, in order
            let part: Vec<u64> = (0..b - a).map(|k| vals[k]).collect();
            used += part.len();
            for x in part {
                d.push_front(x);
            }
            String::new()
        }
        Op::PopIf => {
            if d.is_empty() {
                "none".into()
            } else {
                used += 1;
                std_log_args(d[0], NOARG);
                if vals[0] != 0 { format!("some:{}", d.pop_front().unwrap()) } else { "none".into() }
            }
        }
        other => unreachable!("operation {:?} has no MutBumpVecRev reference", other),
    };
    *v = d.into_iter().collect();
    Ok((r, used))
}

impl_for_settings!(S1U);
impl_for_settings!(S1D);
impl_for_settings!(S8U);
impl_for_settings!(S16D);
