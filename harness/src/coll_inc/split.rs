// Profile `split` (property C16): exhaustive enumeration of `split_off(start..end)` over
// (len ≤ 9, cap ≤ 12, start ≤ end ≤ len) (+ some invalid ranges) on `FixedBumpVec`, `BumpVec`,
// `BumpBox<[T]>`, follow-up operations on either part with the sibling re-read, and the
// `split_at` / `merge` / `split_first` / `split_last` round trips of boxed slices.

fn part_text(h: &str, v: &dyn VecDyn<'_>) -> String {
    let cap = v.cap();
    let addr = if cap == 0 { "*".to_string() } else { v.addr().to_string() };
    format!("{h}:ids={};len={};cap={};addr={}", csv(&v.ids()), v.len(), cap, addr)
}

impl Ctx {
    /// one case: `a.split_off(start..end)` → follow-ups → drops
    fn exec_split<'a>(&mut self, a: DynVec<'a>, spec: &Spec, start: usize, end: usize, follow: usize) {
        let zst = spec.zst;
        let esize = if zst { 0 } else { std::mem::size_of::<E>() };
        let mut a: Option<DynVec<'a>> = Some(a);
        self.announce(a.as_ref().unwrap().as_ref(), "a", spec);
        let (pre, pre_cap, pre_addr) = {
            let v = a.as_ref().unwrap();
            (v.ids(), v.cap(), v.addr())
        };
        let pre_len = pre.len();
        let r = {
            let v = a.as_mut().unwrap();
            catch_unwind(AssertUnwindSafe(|| v.split_off_dyn(start, end)))
        };
        *self.op_hist.entry("split_off".to_string()).or_insert(0) += 1;
        let valid = start <= end && end <= pre_len;
        self.oracle_checks += 1;
        let mut b: Option<DynVec<'a>> = match r {
            Ok(Some(b)) => Some(b),
            Ok(None) => unreachable!("kind without split_off in the split profile"),
            Err(_) => None,
        };
        let optext = format!("op split_off a {start} {end} into=b");
        {
            let av = a.as_ref().unwrap();
            if !zst {
                match &b {
                    Some(bv) => {
                        let _ = writeln!(self.out, "{optext} => {} {} exit=ret", part_text("a", av.as_ref()), part_text("b", bv.as_ref()));
                    }
                    None => {
                        let _ = writeln!(self.out, "{optext} => {} exit=panic", part_text("a", av.as_ref()));
                    }
                }
            } else {
                let _ = writeln!(self.out, "zop split_off a {start} {end} => a.len={} b.len={}", av.len(), b.as_ref().map_or(0, |x| x.len()));
            }
            // ---------------- C16 oracle: exact partition, documented order, capacities, disjoint buffers
            match &b {
                None => {
                    self.count("split-rejected");
                    if valid {
                        self.oracle("C16", format!("{} `{optext}` on len={pre_len}: a valid range was rejected", spec.kind.tok()));
                    } else if av.ids() != pre || av.cap() != pre_cap {
                        self.oracle("C16", format!("{} `{optext}`: the rejected split changed the vector", spec.kind.tok()));
                    }
                }
                Some(bv) => {
                    if !valid {
                        self.oracle("C16", format!("{} `{optext}` on len={pre_len}: an out-of-range split did not panic", spec.kind.tok()));
                    } else if zst {
                        if av.len() + bv.len() != pre_len || bv.len() != end - start {
                            self.oracle("C16", format!("zst {} `{optext}` on len={pre_len}: parts have {} + {} elements", spec.kind.tok(), av.len(), bv.len()));
                        }
                    } else {
                        let want_b: Vec<u64> = pre[start..end].to_vec();
                        let mut want_a: Vec<u64> = pre[..start].to_vec();
                        want_a.extend_from_slice(&pre[end..]);
                        if bv.ids() != want_b || av.ids() != want_a {
                            self.oracle("C16", format!("{} `{optext}` on ids={}: parts are self={} returned={}, expected self={} returned={}", spec.kind.tok(), csv(&pre), csv(&av.ids()), csv(&bv.ids()), csv(&want_a), csv(&want_b)));
                        }
                        if av.cap() + bv.cap() != pre_cap {
                            self.oracle("C16", format!("{} `{optext}` on len={pre_len} cap={pre_cap}: capacities {} + {} do not add up", spec.kind.tok(), av.cap(), bv.cap()));
                        }
                        if av.len() > av.cap() || bv.len() > bv.cap() {
                            self.oracle("C16", format!("{} `{optext}`: a part is longer than its capacity", spec.kind.tok()));
                        }
                        // buffers: inside the original block and disjoint
                        let (a0, a1) = (av.addr(), av.addr() + av.cap() * esize);
                        let (b0, b1) = (bv.addr(), bv.addr() + bv.cap() * esize);
                        let (p0, p1) = (pre_addr, pre_addr + pre_cap * esize);
                        if av.cap() > 0 && bv.cap() > 0 && a0 < b1 && b0 < a1 {
                            self.oracle("C16", format!("{} `{optext}` on len={pre_len} cap={pre_cap}: the buffers of the parts overlap: self=[{a0:#x},{a1:#x}) cap {} returned=[{b0:#x},{b1:#x}) cap {}", spec.kind.tok(), av.cap(), bv.cap()));
                        }
                        if (av.cap() > 0 && (a0 < p0 || a1 > p1)) || (bv.cap() > 0 && (b0 < p0 || b1 > p1)) {
                            self.oracle("C16", format!("{} `{optext}` on len={pre_len} cap={pre_cap}: a part reaches outside the original buffer", spec.kind.tok()));
                        }
                    }
                }
            }
        }
        // ---------------- follow-up operations on either part; the sibling is re-read after each
        let mut expect_a = a.as_ref().map(|v| v.ids());
        let mut expect_b = b.as_ref().map(|v| v.ids());
        for k in 0..follow {
            let on_a = b.is_none() || (k % 2 == 0) == self.rng.chance(3, 4);
            let (tgt, h, sib, sib_h) = if on_a { (&mut a, "a", &b, "b") } else { (&mut b, "b", &a, "a") };
            if tgt.is_none() {
                continue;
            }
            let step = {
                let v = tgt.as_ref().unwrap();
                let (ids, cap) = (v.ids(), v.cap());
                // fill to capacity (and one beyond) more often than the general generator does
                if spec.kind != Kind::Boxed && self.rng.chance(1, 2) {
                    let room = if cap == usize::MAX { 2 } else { cap.saturating_sub(ids.len()) + 1 };
                    let n = room.min(4);
                    let mut oracle = Vec::new();
                    for _ in 0..n {
                        let id = self.fresh();
                        oracle.push(Oc::Ret(id));
                    }
                    Step { op: Op::ExtendClone(n), oracle, bombs: vec![] }
                } else {
                    let mut st = self.gen_step(spec.kind, &ids, cap);
                    while st.op.consumes() {
                        st = self.gen_step(spec.kind, &ids, cap);
                    }
                    st
                }
            };
            self.do_step(tgt, h, spec, step, false);
            if on_a {
                expect_a = a.as_ref().map(|v| v.ids());
            } else {
                expect_b = b.as_ref().map(|v| v.ids());
            }
            // sibling re-read
            let (sv, expect) = if on_a { (&b, &expect_b) } else { (&a, &expect_a) };
            let _ = sib;
            if let (Some(sv), Some(expect)) = (sv, expect) {
                self.oracle_checks += 1;
                let now = sv.ids();
                if !zst {
                    let _ = writeln!(self.out, "peek {sib_h} => ids={} len={} cap={}", csv(&now), sv.len(), sv.cap());
                    if &now != expect {
                        self.oracle("C16", format!("{}: an operation on part `{h}` changed the contents of part `{sib_h}`: {} -> {}", spec.kind.tok(), csv(expect), csv(&now)));
                    }
                } else if now.len() != expect.len() {
                    self.oracle("C16", format!("zst {}: an operation on part `{h}` changed the length of part `{sib_h}`", spec.kind.tok()));
                }
            }
        }
        // ---------------- shrink_to_fit of a BumpVec part (oracle only; the model is re-synchronised)
        if spec.kind == Kind::Bump && !zst && self.rng.chance(1, 3) {
            let on_a = b.is_none() || self.rng.chance(1, 2);
            let (tgt, h) = if on_a { (&mut a, "a") } else { (&mut b, "b") };
            if let Some(v) = tgt.as_mut() {
                let before = v.ids();
                v.shrink_dyn();
                *self.op_hist.entry("shrink_to_fit".to_string()).or_insert(0) += 1;
                if v.ids() != before || v.cap() < v.len() {
                    self.oracle("C16", format!("bump: shrink_to_fit of part `{h}` changed its contents or broke len <= cap"));
                }
                let _ = writeln!(self.out, "new {h} bump cap={} ids={} addr={}", v.cap(), csv(&v.ids()), v.addr());
                let (sv, sib_h, expect) = if on_a { (&b, "b", &expect_b) } else { (&a, "a", &expect_a) };
                if let (Some(sv), Some(expect)) = (sv, expect) {
                    if &sv.ids() != expect {
                        self.oracle("C16", format!("bump: shrink_to_fit of part `{h}` changed the contents of part `{sib_h}`"));
                    }
                }
            }
        }
        // ---------------- drop both parts (either order); each drops exactly what it holds
        let first_a = self.rng.chance(1, 2);
        for round in 0..2 {
            let (tgt, h, sib, sib_h, sib_expect) = if (round == 0) == first_a {
                (&mut a, "a", &b, "b", &expect_b)
            } else {
                (&mut b, "b", &a, "a", &expect_a)
            };
            if let Some(v) = tgt.take() {
                let owned = v.ids();
                let n = v.len();
                let zc = zcounts();
                let _ = take_log();
                let r = catch_unwind(AssertUnwindSafe(move || drop(v)));
                let drops = take_log();
                self.oracle_checks += 1;
                if zst {
                    let (_, d, _) = zcounts();
                    if d - zc.1 != n as u64 {
                        self.oracle("C06", format!("zst {}: dropping part `{h}` of {n} values ran {} destructors", spec.kind.tok(), d - zc.1));
                    }
                } else {
                    let _ = writeln!(self.out, "drop {h} => drops={} exit={}", csv(&drops), if r.is_ok() { "ret" } else { "panic" });
                    if drops != owned {
                        self.oracle("C06", format!("{}: dropping part `{h}` holding ids={} dropped {}", spec.kind.tok(), csv(&owned), csv(&drops)));
                    }
                    if round == 0 {
                        if let (Some(sv), Some(expect)) = (sib, sib_expect) {
                            if &sv.ids() != expect {
                                self.oracle("C16", format!("{}: dropping part `{h}` changed the contents of part `{sib_h}`", spec.kind.tok()));
                            }
                        }
                    }
                }
            }
        }
        clear_stash();
        let _ = take_log();
        let _ = take_created();
    }
}

/// `split_at` / `merge` / `split_first` / `split_last` on boxed slices (concrete types)
fn box_round_trips<'b, T: Elem>(ctx: &mut Ctx, alloc: &mut dyn FnMut(&[u64]) -> BumpBox<'b, [T]>, len: usize, at: usize, variant: u8) {
    let zst = T::ZST;
    let esize = std::mem::size_of::<T>();
    let ids: Vec<u64> = (0..len).map(|_| ctx.fresh()).collect();
    let c = alloc(&ids);
    let _ = take_created();
    let _ = take_log();
    let base = c.as_ptr() as usize;
    if !zst {
        let _ = writeln!(ctx.out, "new c box cap={len} ids={} addr={base} esize={esize} align={}", csv(&ids), std::mem::align_of::<T>());
    }
    *ctx.op_hist.entry("split_at".to_string()).or_insert(0) += 1;
    ctx.oracle_checks += 1;
    let txt = |h: &str, v: &BumpBox<'b, [T]>| part_text(h, v);
    match catch_unwind(AssertUnwindSafe(move || c.split_at(at))) {
        Err(_) => {
            // the box was moved into the call: the unwind dropped it
            let drops = take_log();
            if !zst {
                // not sent to the driver as an op (the model keeps the vector); re-synchronise by dropping it there too
                let _ = writeln!(ctx.out, "# split_at {at} of len {len} panicked, drops={}", csv(&drops));
                let _ = writeln!(ctx.out, "drop c => drops={} exit=ret", csv(&drops));
            }
            if at <= len {
                ctx.oracle("C16", format!("box split_at({at}) on len={len} panicked"));
            } else if !zst && drops != ids {
                ctx.oracle("C06", format!("box split_at({at}) on len={len} panicked and dropped {} of ids={}", csv(&drops), csv(&ids)));
            }
        }
        Ok((l, r)) => {
            if at > len {
                ctx.oracle("C16", format!("box split_at({at}) on len={len} did not panic"));
            }
            if !zst {
                let _ = writeln!(ctx.out, "op split_at c {at} into=l,r => {} {} exit=ret", txt("l", &l), txt("r", &r));
                if VecDyn::ids(&l) != ids[..at.min(len)] || VecDyn::ids(&r) != ids[at.min(len)..] {
                    ctx.oracle("C16", format!("box split_at({at}) on ids={}: left={} right={}", csv(&ids), csv(&VecDyn::ids(&l)), csv(&VecDyn::ids(&r))));
                }
                if l.as_ptr() as usize != base || r.as_ptr() as usize != base + at * esize {
                    ctx.oracle("C16", format!("box split_at({at}) on len={len}: the halves do not tile the original buffer"));
                }
            } else if l.len() + r.len() != len || l.len() != at {
                ctx.oracle("C16", format!("zst box split_at({at}) on len={len}: halves have {} + {} elements", l.len(), r.len()));
            }
            *ctx.op_hist.entry("merge".to_string()).or_insert(0) += 1;
            if variant % 2 == 0 {
                // merge in order: the inverse
                match catch_unwind(AssertUnwindSafe(move || l.merge(r))) {
                    Ok(m) => {
                        if !zst {
                            let _ = writeln!(ctx.out, "op merge l r into=m => {} exit=ret", txt("m", &m));
                            if VecDyn::ids(&m) != ids || (len > 0 && m.as_ptr() as usize != base) {
                                ctx.oracle("C16", format!("box merge after split_at({at}) on ids={}: got ids={} at {:#x} (original {:#x})", csv(&ids), csv(&VecDyn::ids(&m)), m.as_ptr() as usize, base));
                            }
                        } else if m.len() != len {
                            ctx.oracle("C16", format!("zst box merge after split_at({at}) on len={len}: len {}", m.len()));
                        }
                        // split_first / split_last round trip
                        if variant % 4 == 0 {
                            *ctx.op_hist.entry("split_first".to_string()).or_insert(0) += 1;
                            match m.split_first() {
                                None => {
                                    if !zst {
                                        let _ = writeln!(ctx.out, "op split_first m into=f,g => exit=ret:none");
                                    }
                                    if len != 0 {
                                        ctx.oracle("C16", format!("box split_first on len={len} returned None"));
                                    }
                                }
                                Some((f, g)) => {
                                    let fb = f.into_boxed_slice();
                                    if !zst {
                                        let _ = writeln!(ctx.out, "op split_first m into=f,g => {} {} exit=ret", txt("f", &fb), txt("g", &g));
                                        if VecDyn::ids(&fb) != ids[..1] || VecDyn::ids(&g) != ids[1..] {
                                            ctx.oracle("C16", format!("box split_first on ids={}: first={} rest={}", csv(&ids), csv(&VecDyn::ids(&fb)), csv(&VecDyn::ids(&g))));
                                        }
                                        let _ = writeln!(ctx.out, "drop f => drops={} exit=ret", {
                                            drop(fb);
                                            csv(&take_log())
                                        });
                                        let _ = writeln!(ctx.out, "drop g => drops={} exit=ret", {
                                            drop(g);
                                            csv(&take_log())
                                        });
                                    }
                                }
                            }
                        } else {
                            *ctx.op_hist.entry("split_last".to_string()).or_insert(0) += 1;
                            match m.split_last() {
                                None => {
                                    if !zst {
                                        let _ = writeln!(ctx.out, "op split_last m into=f,g => exit=ret:none");
                                    }
                                    if len != 0 {
                                        ctx.oracle("C16", format!("box split_last on len={len} returned None"));
                                    }
                                }
                                Some((f, g)) => {
                                    let fb = f.into_boxed_slice();
                                    if !zst {
                                        let _ = writeln!(ctx.out, "op split_last m into=f,g => {} {} exit=ret", txt("f", &fb), txt("g", &g));
                                        if VecDyn::ids(&fb) != ids[len - 1..] || VecDyn::ids(&g) != ids[..len - 1] {
                                            ctx.oracle("C16", format!("box split_last on ids={}: last={} rest={}", csv(&ids), csv(&VecDyn::ids(&fb)), csv(&VecDyn::ids(&g))));
                                        }
                                        let _ = writeln!(ctx.out, "drop g => drops={} exit=ret", {
                                            drop(g);
                                            csv(&take_log())
                                        });
                                        let _ = writeln!(ctx.out, "drop f => drops={} exit=ret", {
                                            drop(fb);
                                            csv(&take_log())
                                        });
                                    }
                                }
                            }
                        }
                    }
                    Err(_) => {
                        let _ = take_log();
                        ctx.oracle("C16", format!("box merge of the two halves of split_at({at}) on len={len} was rejected"));
                    }
                }
            } else {
                // merge in the wrong order: must be rejected unless that order is contiguous too
                let contiguous = zst || (r.as_ptr() as usize + r.len() * esize == l.as_ptr() as usize);
                match catch_unwind(AssertUnwindSafe(move || r.merge(l))) {
                    Ok(m) => {
                        if !zst {
                            let _ = writeln!(ctx.out, "op merge r l into=m => {} exit=ret", txt("m", &m));
                        }
                        if !contiguous {
                            ctx.oracle("C16", format!("box merge(right, left) after split_at({at}) on len={len} was accepted although the slices are not contiguous in that order"));
                        }
                        let _ = take_log();
                        let mids = VecDyn::ids(&m);
                        drop(m);
                        let d = take_log();
                        if !zst {
                            let _ = writeln!(ctx.out, "drop m => drops={} exit=ret", csv(&d));
                            if d != mids {
                                ctx.oracle("C06", format!("box merge(right,left): dropping the result dropped {} instead of {}", csv(&d), csv(&mids)));
                            }
                        }
                    }
                    Err(_) => {
                        let d = take_log();
                        if !zst {
                            let _ = writeln!(ctx.out, "op merge r l into=m => drops={} exit=panic", csv(&d));
                            let mut sorted = d.clone();
                            sorted.sort_unstable();
                            let mut want = ids.clone();
                            want.sort_unstable();
                            if sorted != want {
                                ctx.oracle("C06", format!("box merge(right,left) rejected: the unwind dropped {} of ids={}", csv(&d), csv(&ids)));
                            }
                        }
                        if contiguous {
                            ctx.oracle("C16", format!("box merge(right, left) after split_at({at}) on len={len} was rejected although contiguous"));
                        }
                    }
                }
            }
        }
    }
    clear_stash();
    if zst {
        // every zero-sized value made for this case has been destructed exactly once by now (all owners are gone)
        let (c, d, st) = zcounts();
        if d + st != c {
            ctx.oracle("C16", format!("zst box split_at({at}) / merge / split_first|last round trip (variant {variant}) on len={len}: {c} values made, {d} destructor calls"));
            ctx.oracle("C06", format!("zst box split_at({at}) / merge round trip (variant {variant}) on len={len}: {c} values made, {d} destructor calls (a value was dropped twice or leaked)"));
        }
    }
    let _ = take_log();
    let _ = take_created();
}

/// empty ranges at the two ends of a boxed slice: `split_off(len..)` and `split_off(..0)` return an EMPTY part that
/// sits exactly at the cut (the parts tile the buffer — `C16.split_off_buffers_disjoint` / `split_off_partitions`), so
/// merging the two parts in their adjacent order gives the original back; an interior `k..k` leaves `self` alone.
fn box_empty_splits<'b, T: Elem>(ctx: &mut Ctx, alloc: &mut dyn FnMut(&[u64]) -> BumpBox<'b, [T]>, len: usize) {
    if T::ZST {
        return;
    }
    let esize = std::mem::size_of::<T>();
    for case in 0..3u8 {
        let ks: Vec<usize> = if case == 2 { (1..len).collect() } else { vec![0] };
        for k in ks {
            let ids: Vec<u64> = (0..len).map(|_| ctx.fresh()).collect();
            let mut c = alloc(&ids);
            let _ = take_created();
            let _ = take_log();
            let base = c.as_ptr() as usize;
            ctx.oracle_checks += 1;
            *ctx.op_hist.entry("split_off(empty range)".to_string()).or_insert(0) += 1;
            let (what, t) = match case {
                0 => (format!("split_off({len}..) on len={len}"), c.split_off(len..)),
                1 => (format!("split_off(..0) on len={len}"), c.split_off(..0)),
                _ => (format!("split_off({k}..{k}) on len={len}"), c.split_off(k..k)),
            };
            if !t.is_empty() || VecDyn::ids(&c) != ids {
                ctx.oracle("C16", format!("box {what}: returned {} elements, self holds {} (expected nothing / {})", t.len(), csv(&VecDyn::ids(&c)), csv(&ids)));
            }
            if case < 2 {
                let want_ptr = if case == 0 { base + len * esize } else { base };
                if t.as_ptr() as usize != want_ptr || (len > 0 && c.as_ptr() as usize != base) {
                    ctx.oracle("C16", format!("box {what}: the empty part sits at {:#x}, the cut is at {:#x} (the parts do not tile the buffer)", t.as_ptr() as usize, want_ptr));
                }
                // the parts in their adjacent order merge back into the original
                let r = catch_unwind(AssertUnwindSafe(move || if case == 0 { c.merge(t) } else { t.merge(c) }));
                match r {
                    Ok(m) => {
                        if VecDyn::ids(&m) != ids || (len > 0 && m.as_ptr() as usize != base) {
                            ctx.oracle("C16", format!("box {what} then merge: holds {} (expected {})", csv(&VecDyn::ids(&m)), csv(&ids)));
                        }
                        drop(m);
                    }
                    Err(_) => ctx.oracle("C16", format!("box {what}: merging the two parts in their adjacent order panicked (split then merge does not round-trip)")),
                }
            } else {
                drop(t);
                drop(c);
            }
            let mut drops = take_log();
            drops.sort_unstable();
            let mut want = ids.clone();
            want.sort_unstable();
            if drops != want {
                ctx.oracle("C06", format!("box {what}: destructor calls {} (expected exactly {})", csv(&drops), csv(&want)));
            }
        }
    }
}

/// `partition(pred)` of a boxed slice (oracle only: exact partition as multisets, count of the left part,
/// contiguity; exactly-once drops also when the predicate panics)
fn box_partition<'b, T: Elem>(ctx: &mut Ctx, alloc: &mut dyn FnMut(&[u64]) -> BumpBox<'b, [T]>, len: usize, panic_at: Option<usize>) {
    let zst = T::ZST;
    let ids: Vec<u64> = (0..len).map(|_| ctx.fresh()).collect();
    let c = alloc(&ids);
    let _ = take_created();
    let _ = take_log();
    let zc = zcounts();
    if !zst {
        let _ = writeln!(ctx.out, "new c box cap={len} ids={} addr={} esize={} align={}", csv(&ids), c.as_ptr() as usize, std::mem::size_of::<T>(), std::mem::align_of::<T>());
    }
    let mut oracle: Vec<Oc> = (0..len).map(|_| Oc::Ret(u64::from(ctx.rng.chance(1, 2)))).collect();
    if let Some(k) = panic_at {
        if k < len {
            oracle[k] = Oc::Panic;
            oracle.truncate(k + 1);
        }
    }
    set_oracle(&oracle, &[]);
    *ctx.op_hist.entry("partition".to_string()).or_insert(0) += 1;
    ctx.oracle_checks += 1;
    let r = catch_unwind(AssertUnwindSafe(move || c.partition(T::pred_ref)));
    let used_n = used();
    clear_oracle();
    let optext = format!("op partition c o={} into=l,r", oracle_text(&oracle));
    match r {
        Ok((l, r)) => {
            if !zst {
                let _ = writeln!(ctx.out, "{optext} => {} {} exit=ret used={used_n}", part_text("l", &l), part_text("r", &r));
            }
            let trues = oracle.iter().filter(|o| matches!(o, Oc::Ret(v) if *v != 0)).count();
            if oracle.contains(&Oc::Panic) {
                ctx.oracle("C16", format!("box partition on len={len}: the predicate panicked but the call returned"));
            }
            if l.len() != trues || l.len() + r.len() != len || used_n != len {
                ctx.oracle("C16", format!("box partition on len={len} with {trues} `true` answers: parts have {} + {} elements, {} predicate calls", l.len(), r.len(), used_n));
            }
            if !zst {
                let mut got = VecDyn::ids(&l);
                got.extend(VecDyn::ids(&r));
                got.sort_unstable();
                let mut want = ids.clone();
                want.sort_unstable();
                if got != want {
                    ctx.oracle("C16", format!("box partition on ids={}: parts hold {} and {}", csv(&ids), csv(&VecDyn::ids(&l)), csv(&VecDyn::ids(&r))));
                }
                if l.as_ptr() as usize + l.len() * std::mem::size_of::<T>() != r.as_ptr() as usize {
                    ctx.oracle("C16", format!("box partition on len={len}: the parts are not adjacent"));
                }
            }
            let _ = take_log();
            let (lids, rids) = (VecDyn::ids(&l), VecDyn::ids(&r));
            drop(l);
            if !zst {
                let _ = writeln!(ctx.out, "drop l => drops={} exit=ret", csv(&lids));
            }
            drop(r);
            if !zst {
                let _ = writeln!(ctx.out, "drop r => drops={} exit=ret", csv(&rids));
            }
        }
        Err(_) => {
            if !zst {
                let d = peek_log();
                let _ = writeln!(ctx.out, "{optext} => drops={} exit=panic used={used_n}", csv(&d));
            }
            if !oracle.contains(&Oc::Panic) {
                ctx.oracle("C16", format!("box partition on len={len} panicked although the predicate did not"));
            }
        }
    }
    // everything was dropped exactly once by now
    if zst {
        let (_, d, _) = zcounts();
        if d - zc.1 != len as u64 {
            ctx.oracle("C06", format!("zst box partition on len={len} (panic at {panic_at:?}): {} destructor calls for {len} values", d - zc.1));
        }
    } else {
        let mut drops = take_log();
        drops.sort_unstable();
        let mut want = ids.clone();
        want.sort_unstable();
        if drops != want {
            ctx.oracle("C06", format!("box partition on ids={} (panic at {panic_at:?}): dropped {}", csv(&ids), csv(&drops)));
        }
    }
    clear_stash();
    let _ = take_log();
    let _ = take_created();
}

/// `into_flattened` of a vector of `[T; 2]` (oracle only): element count and order are kept, each value dropped once
fn check_flattened<T: Elem>(ctx: &mut Ctx, what: &str, ids: &[u64], got_ids: Vec<u64>, got_len: usize, got_cap: Option<(usize, usize)>) {
    ctx.oracle_checks += 1;
    *ctx.op_hist.entry("into_flattened".to_string()).or_insert(0) += 1;
    if got_len != ids.len() {
        ctx.oracle("C16", format!("{what} into_flattened of {} arrays of 2: length {got_len}", ids.len() / 2));
    }
    if !T::ZST && got_ids != ids {
        ctx.oracle("C16", format!("{what} into_flattened on ids={}: got {}", csv(ids), csv(&got_ids)));
    }
    if let Some((before, after)) = got_cap {
        if !T::ZST && after != before * 2 {
            ctx.oracle("C16", format!("{what} into_flattened: capacity {before} arrays became {after} elements"));
        }
        if T::ZST && after != usize::MAX {
            ctx.oracle("C08", format!("{what} into_flattened of a zero-sized type: capacity {after}"));
        }
    }
}

/// correspondence lines of one `into_flattened` (sized elements): the vector of arrays is announced as its
/// buffer of `T`-sized slots, the operation carries the array counts, the answer is what the result reports
fn flatten_lines<T: Elem>(ctx: &mut Ctx, kind: &str, ids: &[u64], arr_cap: usize, got_ids: &[u64], got_len: usize, got_cap: usize) {
    if T::ZST {
        return;
    }
    let _ = writeln!(ctx.out, "# trace {} into_flattened kind={kind} arrays={} cap={arr_cap}", ctx.trace_no, ids.len() / 2);
    ctx.trace_no += 1;
    let _ = writeln!(ctx.out, "new f {kind} cap={} ids={}", arr_cap * 2, csv(ids));
    let _ = writeln!(
        ctx.out,
        "op into_flattened f n=2 arrlen={} arrcap={arr_cap} o=- bombs=- capin=0 => ids={} len={got_len} cap={got_cap} drops=- esc=- exit=ret used=0",
        ids.len() / 2,
        csv(got_ids)
    );
}

fn pairs<T: Elem>(ids: &[u64]) -> Vec<[T; 2]> {
    ids.chunks(2).map(|c| [T::make(c[0]), T::make(c[1])]).collect()
}

macro_rules! flatten_with_settings {
    ($fname:ident, $S:ty) => {
        fn $fname<T: Elem>(ctx: &mut Ctx) {
            for n in 0..=5usize {
                for spare in [0usize, 2] {
                    ctx.next_id = 1;
                    let ids: Vec<u64> = (0..2 * n).map(|_| ctx.fresh()).collect();
                    zreset();
                    let _ = take_log();
                    let mut bump: Bump<Global, $S> = Bump::new();
                    {
                        let b: BumpBox<[[T; 2]]> = bump.alloc_iter_exact(pairs::<T>(&ids));
                        let f = b.into_flattened();
                        check_flattened::<T>(ctx, "box", &ids, VecDyn::ids(&f), f.len(), None);
                        flatten_lines::<T>(ctx, "box", &ids, n, &VecDyn::ids(&f), f.len(), f.len());
                    }
                    {
                        let mut v: FixedBumpVec<[T; 2]> = FixedBumpVec::with_capacity_in(n + spare, &bump);
                        for p in pairs::<T>(&ids) {
                            v.push(p);
                        }
                        let cap = v.capacity();
                        let f = v.into_flattened();
                        check_flattened::<T>(ctx, "fixed", &ids, VecDyn::ids(&f), VecDyn::len(&f), Some((cap, f.capacity())));
                        flatten_lines::<T>(ctx, "fixed", &ids, cap, &VecDyn::ids(&f), VecDyn::len(&f), f.capacity());
                    }
                    {
                        let mut v: BumpVec<[T; 2], &Bump<Global, $S>> = BumpVec::with_capacity_in(n + spare, &bump);
                        for p in pairs::<T>(&ids) {
                            v.push(p);
                        }
                        let cap = v.capacity();
                        let mut f = v.into_flattened();
                        check_flattened::<T>(ctx, "bump", &ids, VecDyn::ids(&f), VecDyn::len(&f), Some((cap, f.capacity())));
                        flatten_lines::<T>(ctx, "bump", &ids, cap, &VecDyn::ids(&f), VecDyn::len(&f), f.capacity());
                        // the flattened vector keeps working: grow it, then drop
                        f.push(T::make(1000));
                        f.push(T::make(1001));
                    }
                    {
                        let mut v: MutBumpVec<[T; 2], &mut Bump<Global, $S>> = MutBumpVec::with_capacity_in(n + spare, &mut bump);
                        for p in pairs::<T>(&ids) {
                            v.push(p);
                        }
                        let cap = v.capacity();
                        let f = v.into_flattened();
                        check_flattened::<T>(ctx, "mut", &ids, VecDyn::ids(&f), VecDyn::len(&f), Some((cap, f.capacity())));
                        flatten_lines::<T>(ctx, "mut", &ids, cap, &VecDyn::ids(&f), VecDyn::len(&f), f.capacity());
                    }
                    {
                        let mut v: MutBumpVecRev<[T; 2], &mut Bump<Global, $S>> = MutBumpVecRev::with_capacity_in(n + spare, &mut bump);
                        for p in pairs::<T>(&ids).into_iter().rev() {
                            v.push(p);
                        }
                        let cap = v.capacity();
                        let f = v.into_flattened();
                        check_flattened::<T>(ctx, "rev", &ids, VecDyn::ids(&f), VecDyn::len(&f), Some((cap, f.capacity())));
                        flatten_lines::<T>(ctx, "rev", &ids, cap, &VecDyn::ids(&f), VecDyn::len(&f), f.capacity());
                    }
                    // five owners held every id once (+ the two extra pushes): each destructor ran exactly once
                    ctx.oracle_checks += 1;
                    if T::ZST {
                        let (c, d, _) = zcounts();
                        if c != d {
                            ctx.oracle("C06", format!("zst into_flattened round: {c} values created, {d} destructor calls"));
                        }
                    } else {
                        let mut drops = take_log();
                        drops.sort_unstable();
                        let mut want: Vec<u64> = Vec::new();
                        for _ in 0..5 {
                            want.extend_from_slice(&ids);
                        }
                        want.push(1000);
                        want.push(1001);
                        want.sort_unstable();
                        if drops != want {
                            ctx.oracle("C06", format!("into_flattened round on ids={}: destructor calls {}", csv(&ids), csv(&drops)));
                        }
                    }
                    let _ = take_created();
                }
            }
            // partition
            for len in 0..=8usize {
                for pk in [None, Some(0usize), Some(len / 2), Some(len.saturating_sub(1))] {
                    ctx.next_id = 1;
                    zreset();
                    let bump: Bump<Global, $S> = Bump::new();
                    let mut alloc = |ids: &[u64]| -> BumpBox<[T]> { bump.alloc_iter_exact(ids.iter().map(|i| T::make(*i))) };
                    box_partition::<T>(ctx, &mut alloc, len, pk);
                }
            }
        }
    };
}
flatten_with_settings!(flatten_s1u, S1U);
flatten_with_settings!(flatten_s1d, S1D);
flatten_with_settings!(flatten_s8u, S8U);
flatten_with_settings!(flatten_s16d, S16D);

macro_rules! split_with_settings {
    ($fname:ident, $S:ty) => {
        fn $fname<T: Elem>(ctx: &mut Ctx, zst: bool, settings: u8, exhaustive: bool) {
            let sname = ["min-align 1 up", "min-align 1 down", "min-align 8 up", "min-align 16 down"][settings as usize];
            let max_len = 9usize;
            let max_cap = 12usize;
            let mut cases = 0u64;
            for kind in [Kind::Fixed, Kind::Bump, Kind::Boxed] {
                for len in 0..=max_len {
                    let caps: Vec<usize> = if kind == Kind::Boxed { vec![len] } else { (len..=max_cap).collect() };
                    for cap in caps {
                        // all valid ranges + a few invalid ones
                        let mut ranges: Vec<(usize, usize)> = Vec::new();
                        for s in 0..=len {
                            for e in s..=len {
                                ranges.push((s, e));
                            }
                        }
                        ranges.push((0, len + 1));
                        ranges.push((len + 1, len + 1));
                        ranges.push((len + 1, len));
                        if len > 0 {
                            ranges.push((len, len - 1));
                        }
                        for (s, e) in ranges {
                            // outside the exhaustive configuration only a sample is run
                            if !exhaustive && !ctx.rng.chance(1, 12) {
                                continue;
                            }
                            cases += 1;
                            ctx.next_id = 1;
                            let ids: Vec<u64> = (0..len).map(|_| ctx.fresh()).collect();
                            let spec = Spec { kind, zst, settings, ids, cap, script: None, nops: 0, label: "split" };
                            let _ = writeln!(ctx.out, "# trace {} split kind={} elem={} arena={} len={} cap={} range={}..{}", ctx.trace_no, kind.tok(), if zst { "zst" } else { "sized" }, sname, len, cap, s, e);
                            ctx.trace_no += 1;
                            zreset();
                            let bump: Bump<Global, $S> = Bump::new();
                            // something before and after the vector in the same chunk
                            let _pad = bump.alloc(0xAAu8);
                            let v: DynVec = match kind {
                                Kind::Boxed => {
                                    let v: BumpBox<[T]> = bump.alloc_iter_exact(spec.ids.iter().map(|i| T::make(*i)));
                                    Box::new(v)
                                }
                                Kind::Fixed => {
                                    let mut v: FixedBumpVec<T> = FixedBumpVec::with_capacity_in(spec.cap, &bump);
                                    for i in &spec.ids {
                                        v.push(T::make(*i));
                                    }
                                    Box::new(v)
                                }
                                _ => {
                                    let mut v: BumpVec<T, &Bump<Global, $S>> = BumpVec::with_capacity_in(spec.cap, &bump);
                                    for i in &spec.ids {
                                        v.push(T::make(*i));
                                    }
                                    Box::new(v)
                                }
                            };
                            let follow = if ctx.rng.chance(1, 3) { 0 } else { ctx.rng.range(1, 4) as usize };
                            let r = catch_unwind(AssertUnwindSafe(|| ctx.exec_split(v, &spec, s, e, follow)));
                            if r.is_err() {
                                clear_oracle();
                                ctx.oracle("C16", format!("{} split_off({s}..{e}) on len={len} cap={cap}: the harness itself panicked while operating on the parts (inconsistent len/cap/contents reported by the implementation)", kind.tok()));
                            }
                        }
                    }
                }
            }
            // boxed-slice round trips
            for len in 0..=max_len {
                for at in 0..=len + 1 {
                    for variant in 0..4u8 {
                        if !exhaustive && !ctx.rng.chance(1, 6) {
                            continue;
                        }
                        cases += 1;
                        ctx.next_id = 1;
                        let _ = writeln!(ctx.out, "# trace {} box-round-trip elem={} arena={} len={} at={} variant={}", ctx.trace_no, if zst { "zst" } else { "sized" }, sname, len, at, variant);
                        ctx.trace_no += 1;
                        zreset();
                        let bump: Bump<Global, $S> = Bump::new();
                        let _pad = bump.alloc(0x55u8);
                        let mut alloc = |ids: &[u64]| -> BumpBox<[T]> { bump.alloc_iter_exact(ids.iter().map(|i| T::make(*i))) };
                        box_round_trips::<T>(ctx, &mut alloc, len, at, variant);
                        if at == 0 && variant == 0 {
                            ctx.next_id = 1;
                            box_empty_splits::<T>(ctx, &mut alloc, len);
                        }
                    }
                }
            }
            *ctx.counters.entry("split-cases").or_insert(0) += cases;
        }
    };
}
split_with_settings!(split_s1u, S1U);
split_with_settings!(split_s1d, S1D);
split_with_settings!(split_s8u, S8U);
split_with_settings!(split_s16d, S16D);

/// the `split` profile: one configuration is enumerated exhaustively (chosen by the seed), the others sampled
pub fn run_split_profile(ctx: &mut Ctx, budget: usize) {
    let pick = (seed() % 4) as u8;
    for settings in 0..4u8 {
        for zst in [false, true] {
            // sized elements: exhaustive in the configuration of the seed and in its mirror direction
            let exhaustive = !zst && (settings == pick || settings == (pick ^ 1)) || (zst && settings == pick && budget > 1);
            match (settings, zst) {
                (0, false) => split_s1u::<E>(ctx, zst, settings, exhaustive),
                (1, false) => split_s1d::<E>(ctx, zst, settings, exhaustive),
                (2, false) => split_s8u::<E>(ctx, zst, settings, exhaustive),
                (_, false) => split_s16d::<E>(ctx, zst, settings, exhaustive),
                (0, true) => split_s1u::<Z>(ctx, zst, settings, exhaustive),
                (1, true) => split_s1d::<Z>(ctx, zst, settings, exhaustive),
                (2, true) => split_s8u::<Z>(ctx, zst, settings, exhaustive),
                (_, true) => split_s16d::<Z>(ctx, zst, settings, exhaustive),
            }
            print!("{}", ctx.out);
            ctx.out.clear();
        }
    }
    // into_flattened / partition (oracle only)
    flatten_s1u::<E>(ctx);
    flatten_s1d::<E>(ctx);
    flatten_s8u::<Z>(ctx);
    flatten_s16d::<E>(ctx);
    flatten_s16d::<Z>(ctx);
    print!("{}", ctx.out);
    ctx.out.clear();
}
