// `into_flattened` for the degenerate array lengths N = 0 and N = 1 (and N = 3), all five owners, sized and
// zero-sized `T` (profile `split`).  Documented result: `len * N` elements in order; capacity `cap * N` for a sized
// `T` — for N = 0 the SOURCE elements `[T; 0]` are zero-sized (capacity usize::MAX), the result holds sized `T`s
// and must have capacity `usize::MAX * 0 = 0` — and `usize::MAX` for a zero-sized `T`.  Then a `try_push` (a
// full `FixedBumpVec` must refuse, the others must make room) and the drop: every value exactly once.
// A result that claims the wrong capacity is reported and then FORGOTTEN (pushing into it or dropping it would
// write through / free a dangling pointer).

fn flatn_arrays<T: Elem, const N: usize>(ids: &[u64]) -> Vec<[T; N]> {
    let count = if N == 0 { ids.len() } else { ids.len() / N };
    (0..count).map(|i| std::array::from_fn(|j| T::make(ids[i * N + j]))).collect()
}

/// what the result must look like; `Err(text)` if it does not (the caller then forgets the vector)
fn flatn_judge<T: Elem, const N: usize>(ctx: &mut Ctx, owner: &str, arrays: usize, cap_in: usize, ids: &[u64], got_ids: &[u64], got_len: usize, got_cap: Option<usize>) -> bool {
    ctx.oracle_checks += 1;
    *ctx.op_hist.entry(format!("into_flattened(N={N})")).or_insert(0) += 1;
    let what = format!("{owner}<[{}; {N}]> into_flattened of {arrays} arrays (capacity {cap_in})", if T::ZST { "zero-sized" } else { "sized" });
    let mut ok = true;
    if got_len != arrays * N || (!T::ZST && got_ids != ids) {
        ctx.oracle("C16", format!("{what}: holds {} (len {got_len}), expected {} (len {})", csv(got_ids), csv(ids), arrays * N));
        ok = false;
    }
    if let Some(c) = got_cap {
        let want = if T::ZST { usize::MAX } else { cap_in.wrapping_mul(N) };
        if c != want {
            ctx.oracle("C16", format!("{what}: capacity {c}, documented {}", if T::ZST { "usize::MAX (zero-sized elements)".to_string() } else { format!("{cap_in} * {N} = {want}") }));
            ctx.oracle("C08", format!("{what}: capacity {c} for {} sized elements that fit {want}", got_len));
            ok = false;
        }
    }
    if !T::ZST {
        let kind = match owner { "box" => "box", "fixed" => "fixed", "bump" => "bump", "mut" => "mut", _ => "rev" };
        let _ = writeln!(ctx.out, "# trace {} into_flattened N={N} kind={kind} arrays={arrays} cap={cap_in}", ctx.trace_no);
        ctx.trace_no += 1;
        let flat_cap = if kind == "box" { arrays * N } else { cap_in.wrapping_mul(N) };
        let _ = writeln!(ctx.out, "new f {kind} cap={flat_cap} ids={}", csv(ids));
        let _ = writeln!(
            ctx.out,
            "op into_flattened f n={N} arrlen={arrays} arrcap={} o=- bombs=- capin=0 => ids={} len={got_len} cap={} drops=- esc=- exit=ret used=0",
            if kind == "box" { arrays } else { cap_in },
            csv(got_ids),
            got_cap.unwrap_or(got_len)
        );
    }
    ok
}

macro_rules! flatn_with_settings {
    ($fname:ident, $S:ty) => {
        fn $fname<T: Elem, const N: usize>(ctx: &mut Ctx) {
            for arrays in 0..=3usize {
                for spare in [0usize, 2] {
                    ctx.next_id = 1;
                    zreset();
                    let _ = take_log();
                    let _ = take_created();
                    let mut bump: Bump<Global, $S> = Bump::new();
                    let mut expect: Vec<u64> = Vec::new();
                    let mut owners = 0u64;
                    macro_rules! follow_up {
                        ($f:ident, $owner:literal, $ids:ident, $fixed:expr) => {{
                            // a push afterwards: a full fixed vector refuses (and drops the value), the others make room
                            let id = ctx.fresh();
                            let full = $f.len() == $f.capacity();
                            let r = $f.try_push(T::make(id));
                            expect.push(id);
                            if $fixed && full != r.is_err() {
                                ctx.oracle("C16", format!("{}<[_; {N}]> flattened (len {} cap {}): try_push {} although the vector is {}", $owner, $f.len(), $f.capacity(), if r.is_err() { "was refused" } else { "succeeded" }, if full { "full" } else { "not full" }));
                            }
                            if !$fixed && r.is_err() {
                                ctx.oracle("C16", format!("{}<[_; {N}]> flattened (len {} cap {}): try_push failed", $owner, $f.len(), $f.capacity()));
                            }
                            if r.is_ok() && !T::ZST {
                                let got: Vec<u64> = $f.as_slice().iter().map(|e| e.ident()).collect();
                                let want_last = id;
                                let new_elem = if $owner == "rev" { got.first().copied() } else { got.last().copied() };
                                if got.len() != $ids.len() + 1 || new_elem != Some(want_last) || corrupt() > 0 {
                                    ctx.oracle("C16", format!("{}<[_; {N}]> flattened, after a push: holds {}", $owner, csv(&got)));
                                }
                            }
                        }};
                    }
                    let mk_ids = |ctx: &mut Ctx| -> Vec<u64> { (0..arrays * N.max(1)).map(|_| ctx.fresh()).collect::<Vec<u64>>()[..if N == 0 { arrays } else { arrays * N }].to_vec() };
                    // BumpBox<[[T; N]]>
                    {
                        let ids = mk_ids(ctx);
                        let real: Vec<u64> = if N == 0 { Vec::new() } else { ids.clone() };
                        let b: BumpBox<[[T; N]]> = bump.alloc_iter_exact(flatn_arrays::<T, N>(&ids));
                        let f = b.into_flattened();
                        let got: Vec<u64> = f.iter().map(|e| e.ident()).collect();
                        flatn_judge::<T, N>(ctx, "box", arrays, arrays, &real, &got, f.len(), None);
                        expect.extend_from_slice(&real);
                        owners += 1;
                        drop(f);
                    }
                    // FixedBumpVec
                    {
                        let ids = mk_ids(ctx);
                        let real: Vec<u64> = if N == 0 { Vec::new() } else { ids.clone() };
                        let mut v: FixedBumpVec<[T; N]> = FixedBumpVec::with_capacity_in(arrays + spare, &bump);
                        for a in flatn_arrays::<T, N>(&ids) {
                            v.push(a);
                        }
                        let cap_in = v.capacity();
                        let mut f = v.into_flattened();
                        let got: Vec<u64> = f.as_slice().iter().map(|e| e.ident()).collect();
                        expect.extend_from_slice(&real);
                        owners += 1;
                        if flatn_judge::<T, N>(ctx, "fixed", arrays, cap_in, &real, &got, f.len(), Some(f.capacity())) {
                            follow_up!(f, "fixed", real, true);
                            drop(f);
                        } else {
                            std::mem::forget(f);
                            expect.truncate(expect.len() - real.len());
                        }
                    }
                    // BumpVec
                    {
                        let ids = mk_ids(ctx);
                        let real: Vec<u64> = if N == 0 { Vec::new() } else { ids.clone() };
                        let mut v: BumpVec<[T; N], &Bump<Global, $S>> = BumpVec::with_capacity_in(arrays + spare, &bump);
                        for a in flatn_arrays::<T, N>(&ids) {
                            v.push(a);
                        }
                        let cap_in = v.capacity();
                        let mut f = v.into_flattened();
                        let got: Vec<u64> = f.as_slice().iter().map(|e| e.ident()).collect();
                        expect.extend_from_slice(&real);
                        owners += 1;
                        if flatn_judge::<T, N>(ctx, "bump", arrays, cap_in, &real, &got, f.len(), Some(f.capacity())) {
                            follow_up!(f, "bump", real, false);
                            drop(f);
                        } else {
                            std::mem::forget(f);
                            expect.truncate(expect.len() - real.len());
                        }
                    }
                    // MutBumpVec
                    {
                        let ids = mk_ids(ctx);
                        let real: Vec<u64> = if N == 0 { Vec::new() } else { ids.clone() };
                        let mut v: MutBumpVec<[T; N], &mut Bump<Global, $S>> = MutBumpVec::with_capacity_in(arrays + spare, &mut bump);
                        for a in flatn_arrays::<T, N>(&ids) {
                            v.push(a);
                        }
                        let cap_in = v.capacity();
                        let mut f = v.into_flattened();
                        let got: Vec<u64> = f.as_slice().iter().map(|e| e.ident()).collect();
                        expect.extend_from_slice(&real);
                        owners += 1;
                        if flatn_judge::<T, N>(ctx, "mut", arrays, cap_in, &real, &got, f.len(), Some(f.capacity())) {
                            follow_up!(f, "mut", real, false);
                            drop(f);
                        } else {
                            std::mem::forget(f);
                            expect.truncate(expect.len() - real.len());
                        }
                    }
                    // MutBumpVecRev (own implementation)
                    {
                        let ids = mk_ids(ctx);
                        let real: Vec<u64> = if N == 0 { Vec::new() } else { ids.clone() };
                        let mut v: MutBumpVecRev<[T; N], &mut Bump<Global, $S>> = MutBumpVecRev::with_capacity_in(arrays + spare, &mut bump);
                        for a in flatn_arrays::<T, N>(&ids).into_iter().rev() {
                            v.push(a);
                        }
                        let cap_in = v.capacity();
                        let mut f = v.into_flattened();
                        let got: Vec<u64> = f.as_slice().iter().map(|e| e.ident()).collect();
                        expect.extend_from_slice(&real);
                        owners += 1;
                        if flatn_judge::<T, N>(ctx, "rev", arrays, cap_in, &real, &got, f.len(), Some(f.capacity())) {
                            follow_up!(f, "rev", real, false);
                            drop(f);
                        } else {
                            std::mem::forget(f);
                            expect.truncate(expect.len() - real.len());
                        }
                    }
                    let _ = owners;
                    // every value that was made was destructed exactly once (the values of a forgotten vector excepted)
                    ctx.oracle_checks += 1;
                    if T::ZST {
                        let (c, d, st) = zcounts();
                        if ctx.oracle_failures == 0 && c != d + st {
                            ctx.oracle("C06", format!("zst into_flattened(N={N}) round with {arrays} arrays: {c} values made, {d} destructor calls"));
                        }
                    } else {
                        let mut drops = take_log();
                        drops.sort_unstable();
                        expect.sort_unstable();
                        if drops != expect {
                            ctx.oracle("C06", format!("into_flattened(N={N}) round with {arrays} arrays: destructor calls {} (expected exactly {})", csv(&drops), csv(&expect)));
                        }
                    }
                    let _ = take_created();
                    print!("{}", ctx.out);
                    ctx.out.clear();
                }
            }
        }
    };
}
flatn_with_settings!(flatn_s1u, S1U);
flatn_with_settings!(flatn_s1d, S1D);
flatn_with_settings!(flatn_s8u, S8U);
flatn_with_settings!(flatn_s16d, S16D);

pub fn run_flatn(ctx: &mut Ctx) {
    macro_rules! all_n {
        ($f:ident) => {
            $f::<E, 0>(ctx);
            $f::<E, 1>(ctx);
            $f::<E, 3>(ctx);
            $f::<Z, 0>(ctx);
            $f::<Z, 1>(ctx);
            $f::<Z, 3>(ctx);
        };
    }
    all_n!(flatn_s1u);
    all_n!(flatn_s1d);
    all_n!(flatn_s8u);
    all_n!(flatn_s16d);
}
