// Trace generation, execution on the real types, observation, direct oracles.

#[derive(Clone, Copy, PartialEq, Eq, Debug)]
pub enum Kind {
    Boxed,
    Fixed,
    Bump,
    Mut,
    Rev,
}

impl Kind {
    fn tok(self) -> &'static str {
        match self {
            Kind::Boxed => "box",
            Kind::Fixed => "fixed",
            Kind::Bump => "bump",
            Kind::Mut => "mut",
            Kind::Rev => "rev",
        }
    }
}

/// one operation with everything the callbacks will do
#[derive(Clone, Debug)]
pub struct Step {
    op: Op,
    oracle: Vec<Oc>,
    bombs: Vec<u64>,
}

/// a trace: a vector of one kind / element type / arena configuration, then either a scripted list
/// of steps (variant traces) or `nops` generated ones
#[derive(Clone, Debug)]
pub struct Spec {
    kind: Kind,
    zst: bool,
    settings: u8, // 0: <1,up> 1: <1,down> 2: <8,up> 3: <16,down>
    ids: Vec<u64>,
    cap: usize,
    script: Option<Vec<Step>>,
    nops: usize,
    label: &'static str,
}

pub struct Ctx {
    rng: Rng,
    profile: String,
    out: String,
    trace_no: usize,
    next_id: u64,
    variants: Vec<Spec>,
    max_variants_per_step: usize,
    op_hist: BTreeMap<String, u64>,
    exit_hist: BTreeMap<String, u64>,
    kind_hist: BTreeMap<String, u64>,
    counters: BTreeMap<&'static str, u64>,
    oracle_checks: u64,
    oracle_failures: u64,
}

fn csv(v: &[u64]) -> String {
    if v.is_empty() {
        "-".to_string()
    } else {
        v.iter().map(|x| x.to_string()).collect::<Vec<_>>().join(",")
    }
}

fn oracle_text(o: &[Oc]) -> String {
    if o.is_empty() {
        "-".to_string()
    } else {
        o.iter()
            .map(|x| match x {
                Oc::Ret(v) => format!("r{v}"),
                Oc::Panic => "p".to_string(),
            })
            .collect::<Vec<_>>()
            .join(",")
    }
}

impl Ctx {
    pub fn new(rng: Rng, profile: &str) -> Self {
        Ctx {
            rng,
            profile: profile.to_string(),
            out: String::new(),
            trace_no: 0,
            next_id: 1,
            variants: Vec::new(),
            max_variants_per_step: match profile { "deep" => 64, "std" => 0, "drops" => 8, _ => 6 },
            op_hist: BTreeMap::new(),
            exit_hist: BTreeMap::new(),
            kind_hist: BTreeMap::new(),
            counters: BTreeMap::new(),
            oracle_checks: 0,
            oracle_failures: 0,
        }
    }

    fn count(&mut self, k: &'static str) {
        *self.counters.entry(k).or_insert(0) += 1;
    }

    fn oracle(&mut self, prop: &str, msg: String) {
        self.oracle_failures += 1;
        let _ = writeln!(self.out, "oracle {prop} {msg}");
    }

    fn fresh(&mut self) -> u64 {
        let id = self.next_id;
        self.next_id += 1;
        id
    }

    pub fn gen_spec(&mut self, nops: usize) -> Spec {
        self.next_id = 1;
        // profile `mutgrow`: the exclusive-borrow collections only, filled across chunk boundaries
        let mutgrow = self.profile == "mutgrow";
        let kind = if mutgrow {
            *self.rng.pick(&[Kind::Mut, Kind::Rev])
        } else {
            *self.rng.pick(&[Kind::Boxed, Kind::Fixed, Kind::Fixed, Kind::Bump, Kind::Bump, Kind::Mut, Kind::Rev])
        };
        let zst = !mutgrow && self.rng.chance(1, 4);
        let settings = self.rng.below(4) as u8;
        let len = match self.rng.below(10) {
            0 => 0,
            1 => 1,
            2 => 2,
            _ => self.rng.range(3, 10) as usize,
        };
        let cap = match kind {
            Kind::Boxed => len,
            _ => len + *self.rng.pick(&[0usize, 0, 1, 2, 3, 6]),
        };
        let ids: Vec<u64> = (0..len).map(|_| self.fresh()).collect();
        Spec { kind, zst, settings, ids, cap, script: None, nops, label: "generated" }
    }

    /// picks the next operation for a vector with the given contents / capacity
    fn gen_step(&mut self, kind: Kind, ids: &[u64], cap: usize) -> Step {
        let len = ids.len();
        let near = |rng: &mut Rng, hi: usize| -> usize {
            // mostly valid positions, sometimes the boundary and beyond
            match rng.below(10) {
                0 => hi,
                1 => hi + 1,
                2 => hi + 3,
                _ => {
                    if hi == 0 {
                        0
                    } else {
                        rng.below(hi as u64) as usize
                    }
                }
            }
        };
        let mut choices: Vec<u8> = vec![0, 0, 0, 1, 1, 2, 3, 4, 5, 6, 11, 11, 11, 12, 12, 13, 14];
        if kind != Kind::Boxed {
            choices.extend_from_slice(&[7, 7, 7, 8, 8, 9, 9, 10, 10, 15, 15]);
        }
        // oracle-only operations
        choices.extend_from_slice(&[22]);
        if kind != Kind::Boxed {
            choices.extend_from_slice(&[16, 18, 19, 20, 21]);
        }
        if kind == Kind::Bump || kind == Kind::Mut {
            choices.push(17);
        }
        if kind == Kind::Bump {
            choices.extend_from_slice(&[23, 24, 24, 25, 25, 26]);
        }
        if kind == Kind::Rev {
            choices = vec![2, 3, 4, 4, 5, 5, 6, 6, 7, 7, 7, 8, 8, 8, 9, 9, 10, 10, 13, 15, 15, 16, 17, 19, 19, 20, 21];
        }
        let mut c = *self.rng.pick(&choices);
        let mut oracle = Vec::new();
        // profile `mutgrow`: mostly requests that do not fit what the vector owns, so that it has to move on into a
        // bigger chunk (partially filled, full, empty — whatever the trace made of it)
        let grow_n = if self.profile == "mutgrow" && self.rng.chance(3, 5) {
            c = *self.rng.pick(&[7u8, 9, 9, 10, 15, 16, 17, 20]);
            Some(match self.rng.below(3) {
                0 => 3 + self.rng.below(10) as usize,
                1 => 12 + self.rng.below(30) as usize,
                _ => 40 + self.rng.below(80) as usize,
            })
        } else {
            None
        };
        if let Some(n) = grow_n {
            self.count(if len + n > cap { "mutgrow:request beyond the capacity" } else { "mutgrow:request fits" });
        }
        let op = match (c, grow_n) {
            (9, Some(n)) => {
                for _ in 0..n {
                    let id = self.fresh();
                    oracle.push(Oc::Ret(id));
                }
                Op::ExtendClone(n)
            }
            (10, Some(n)) => {
                let n = len + n;
                for _ in 0..n.saturating_sub(len + 1) {
                    let id = self.fresh();
                    oracle.push(Oc::Ret(id));
                }
                Op::Resize(n, self.fresh())
            }
            (15, Some(n)) => Op::Append((0..n.min(60)).map(|_| self.fresh()).collect()),
            (16, Some(n)) => Op::Reserve(n),
            (17, Some(n)) => Op::ReserveExact(n),
            (20, Some(n)) => {
                let n = len + n;
                for _ in 0..n.saturating_sub(len) {
                    let id = self.fresh();
                    oracle.push(Oc::Ret(id));
                }
                Op::ResizeWith(n)
            }
            _ => match c {
            0 => {
                for _ in 0..len {
                    oracle.push(Oc::Ret(u64::from(self.rng.chance(2, 3))));
                }
                Op::Retain
            }
            1 => {
                for _ in 1..len.max(1) {
                    oracle.push(Oc::Ret(u64::from(self.rng.chance(2, 5))));
                }
                Op::DedupBy
            }
            2 => Op::Truncate(near(&mut self.rng, len + 1)),
            3 => Op::Clear,
            4 => Op::Pop,
            5 => Op::Remove(near(&mut self.rng, len)),
            6 => Op::SwapRemove(near(&mut self.rng, len)),
            7 => Op::Push(self.fresh()),
            8 => {
                let i = near(&mut self.rng, len + 1);
                Op::Insert(i, self.fresh())
            }
            9 => {
                let n = self.rng.below(5) as usize;
                for _ in 0..n {
                    let id = self.fresh();
                    oracle.push(Oc::Ret(id));
                }
                Op::ExtendClone(n)
            }
            10 => {
                let n = self.rng.below(len as u64 + 5) as usize;
                for _ in 0..n.saturating_sub(len + 1) {
                    let id = self.fresh();
                    oracle.push(Oc::Ret(id));
                }
                Op::Resize(n, self.fresh())
            }
            11 => {
                // mostly valid ranges, sometimes reversed / past the end
                let (s, e) = match self.rng.below(12) {
                    0 => (len + 1, len + 1),
                    1 => (0, len + 1),
                    2 => if self.rng.chance(1, 2) { (len + 1, len) } else { (len.min(2), len.min(2).saturating_sub(1)) },
                    _ => {
                        let a = self.rng.below(len as u64 + 1) as usize;
                        let b = self.rng.below(len as u64 + 1) as usize;
                        (a.min(b), a.max(b))
                    }
                };
                let pulls = self.rng.below((e.saturating_sub(s)) as u64 + 2) as usize;
                let script: Vec<u8> = (0..pulls).map(|_| if self.rng.chance(2, 3) { b'f' } else { b'b' }).collect();
                let fin = if self.rng.chance(1, 3) { b'k' } else { b'd' };
                Op::Drain(s, e, script, fin)
            }
            12 => {
                for _ in 0..len {
                    oracle.push(Oc::Ret(u64::from(self.rng.chance(1, 2))));
                }
                let calls = match self.rng.below(4) {
                    0 => self.rng.below(len as u64 + 1) as usize,
                    _ => len + 1,
                };
                Op::ExtractIf(calls)
            }
            13 => {
                let pulls = self.rng.below(len as u64 + 2) as usize;
                Op::IntoIter((0..pulls).map(|_| if self.rng.chance(2, 3) { b'f' } else { b'b' }).collect())
            }
            14 => {
                for _ in 0..len {
                    let id = self.fresh();
                    oracle.push(Oc::Ret(id));
                }
                Op::MapInPlace
            }
            15 => {
                let n = self.rng.below(5) as usize;
                Op::Append((0..n).map(|_| self.fresh()).collect())
            }
            16 => Op::Reserve(*self.rng.pick(&[0usize, 1, 2, 3, 5, 9])),
            17 => Op::ReserveExact(*self.rng.pick(&[0usize, 1, 2, 3, 5, 9])),
            18 => Op::PopIf.also(|| {
                if len > 0 {
                    oracle.push(Oc::Ret(u64::from(self.rng.chance(1, 2))));
                }
            }),
            19 => {
                let (s, e) = match self.rng.below(10) {
                    0 => (0, len + 1),
                    1 => if self.rng.chance(1, 2) { (len + 1, len) } else { (len.min(1) + 1, len.min(1)) },
                    _ => {
                        let a = self.rng.below(len as u64 + 1) as usize;
                        let b = self.rng.below(len as u64 + 1) as usize;
                        (a.min(b), a.max(b).min(a.min(b) + 4))
                    }
                };
                if s <= e && e <= len {
                    for _ in s..e {
                        let id = self.fresh();
                        oracle.push(Oc::Ret(id));
                    }
                }
                Op::ExtendWithinClone(s, e)
            }
            20 => {
                let n = self.rng.below(len as u64 + 4) as usize;
                for _ in 0..n.saturating_sub(len) {
                    let id = self.fresh();
                    oracle.push(Oc::Ret(id));
                }
                Op::ResizeWith(n)
            }
            21 => Op::PopIf.also(|| {
                if len > 0 {
                    oracle.push(Oc::Ret(u64::from(self.rng.chance(1, 2))));
                }
            }),
            22 => {
                // two key calls per comparison; few distinct keys so that neighbours collide
                for _ in 0..2 * len.saturating_sub(1) {
                    oracle.push(Oc::Ret(self.rng.below(2)));
                }
                Op::DedupByKey
            }
            23 => Op::ShrinkToFit,
            25 => {
                // below the length / between length and capacity / at and above the capacity
                let cap = cap.min(len + 24); // (zero-sized elements: capacity usize::MAX)
                let n = match self.rng.below(6) {
                    0 => self.rng.below(len as u64 + 1) as usize,
                    1 | 2 | 3 => len + self.rng.below((cap.saturating_sub(len)) as u64 + 1) as usize,
                    4 => cap,
                    _ => cap + 1 + self.rng.below(4) as usize,
                };
                self.count(if n < len { "shrink_to:below len" } else if n < cap { "shrink_to:between len and cap" } else { "shrink_to:at or above cap (nothing to do)" });
                Op::ShrinkTo(n)
            }
            26 => {
                let n = self.rng.below(5) as usize;
                let ids: Vec<u64> = (0..n).map(|_| self.fresh()).collect();
                let hint = match self.rng.below(3) {
                    0 => self.rng.below(3) as usize,
                    _ => 1_000_000,
                };
                let lie: Option<usize> = if self.rng.chance(1, 3) {
                    Some(match self.rng.below(4) {
                        0 => n + 1 + self.rng.below(4) as usize,
                        1 => self.rng.below(3) as usize,
                        2 => 1usize << 62,
                        _ => isize::MAX as usize,
                    })
                } else {
                    None
                };
                self.count(match lie {
                    None => if hint < n { "extend_iter:under-reporting" } else { "extend_iter:exact" },
                    Some(l) if l >= 1usize << 62 => "extend_iter:lie, capacity overflow",
                    Some(l) if l > n => "extend_iter:lie, over-report",
                    Some(_) => "extend_iter:lie, small",
                });
                Op::ExtendIter(ids, hint, lie)
            }
            _ => {
                let (s, e) = match self.rng.below(10) {
                    0 => (0, len + 1),
                    1 => if self.rng.chance(1, 2) { (len + 1, len) } else { (len.min(1) + 1, len.min(1)) },
                    _ => {
                        let a = self.rng.below(len as u64 + 1) as usize;
                        let b = self.rng.below(len as u64 + 1) as usize;
                        (a.min(b), a.max(b))
                    }
                };
                let n = self.rng.below(5) as usize;
                let ids: Vec<u64> = (0..n).map(|_| self.fresh()).collect();
                let npulls = self.rng.below(e.saturating_sub(s) as u64 + 2) as usize;
                // `Splice` is a DoubleEndedIterator: pulls from both ends (what is left in the middle is dropped by `Splice::drop`)
                let pulls: Vec<u8> = (0..npulls).map(|_| if self.rng.chance(3, 5) { b'f' } else { b'b' }).collect();
                if pulls.contains(&b'b') && s <= e && e <= len && npulls < e - s {
                    self.count("splice:pulled from the back, something left to drop");
                }
                let hint = match self.rng.below(4) {
                    0 => 0,
                    1 => self.rng.below(3) as usize,
                    _ => 1_000_000,
                };
                // a lying source now and then: a harmless over-report, a fixed small number, or a number whose
                // reservation cannot have a layout ("capacity overflow"; anything in between would make the real
                // allocator try — and `panic-on-alloc` abort on failure — so it is never generated)
                let lie_den = match self.profile.as_str() {
                    "drops" | "deep" => 3,
                    _ => 5,
                };
                let lie: Option<usize> = if self.rng.chance(1, lie_den) {
                    Some(match self.rng.below(6) {
                        0 => n + 1 + self.rng.below(4) as usize,
                        1 => self.rng.below(3) as usize,
                        2 => 1usize << 62,
                        _ => isize::MAX as usize,
                    })
                } else {
                    None
                };
                // which part of `Splice::drop` this input reaches (range ok, no panicking Drop)
                if let Some(l) = lie {
                    self.count(if s > e || e > len {
                        "splice-lie:bad-range"
                    } else if l >= 1usize << 62 {
                        if len == e { "splice-lie:overflow in extend/reserve" } else if n >= e - s { "splice-lie:overflow in move_tail" } else { "splice-lie:huge but the source runs dry in the range" }
                    } else if l > n.saturating_sub(e - s) {
                        if len == e { "splice-lie:over-report, extend" } else if n >= e - s { "splice-lie:over-report, fill short, tail moves back" } else { "splice-lie:over-report, source runs dry in the range" }
                    } else {
                        "splice-lie:fixed small number"
                    });
                } else if s <= e && e <= len {
                    let gap = e - s;
                    let lower_after_fill = n.saturating_sub(gap).min(hint);
                    self.count(if len == e {
                        "splice:tail-empty(extend)"
                    } else if n <= gap {
                        if n == gap { "splice:fill-exact" } else { "splice:fill-short(tail moves back)" }
                    } else if lower_after_fill == n - gap {
                        "splice:move-tail(lower bound exact)"
                    } else if lower_after_fill > 0 {
                        "splice:move-tail(lower bound)+collected"
                    } else {
                        "splice:collected-only"
                    });
                } else {
                    self.count("splice:bad-range");
                }
                Op::Splice(s, e, ids, pulls, hint, lie)
            }
            },
        };
        let _ = cap;
        // the same operation through another route of the API now and then
        let op = if kind != Kind::Boxed && self.rng.chance(1, 3) {
            let route: Option<u8> = match &op {
                Op::Push(_) => Some(1 + self.rng.below(3) as u8),
                Op::Insert(..) => Some(1 + self.rng.below(2) as u8),
                Op::Reserve(_) | Op::ExtendClone(_) | Op::Resize(..) | Op::ResizeWith(_) | Op::Append(_) => Some(1),
                Op::ExtendWithinClone(..) if kind != Kind::Rev => Some(1),
                Op::DedupBy if kind != Kind::Rev => Some(if self.rng.chance(1, 2) { 4 } else { 5 }),
                _ => None,
            };
            match route {
                Some(k) => {
                    self.count(match k {
                        1 => "route:try_ twin",
                        2 => "route:push_mut/insert_mut",
                        3 => "route:push_with",
                        4 => "route:dedup()",
                        _ => "route:dedup_by(semantic, non-transitive predicate)",
                    });
                    Op::Alt(k, Box::new(op))
                }
                None => op,
            }
        } else if kind == Kind::Boxed && op == Op::DedupBy && self.rng.chance(1, 2) {
            if self.rng.chance(1, 2) {
                self.count("route:dedup()");
                Op::Alt(4, Box::new(op))
            } else {
                self.count("route:dedup_by(semantic, non-transitive predicate)");
                Op::Alt(5, Box::new(op))
            }
        } else {
            op
        };
        // a source iterator that PANICS at one of its `next()` calls (honest size hint), now and then
        let op = match &op {
            Op::Splice(_, _, ids, _, _, None) | Op::ExtendIter(ids, _, None) if self.rng.chance(1, 4) => {
                let k = self.rng.below(ids.len() as u64 + 1) as u8;
                self.count(if matches!(op, Op::Splice(..)) { "route:splice, the source panics" } else { "route:extend, the source panics" });
                Op::Alt(100 + k, Box::new(op))
            }
            _ => op,
        };
        // a draining / extracting iterator that is LEAKED (`mem::forget`) instead of dropped, now and then
        let op = if matches!(op, Op::Drain(..) | Op::ExtractIf(_)) && self.rng.chance(1, 4) {
            self.count(if matches!(op, Op::Drain(..)) { "route:drain, iterator leaked" } else { "route:extract_if, iterator leaked" });
            Op::Alt(6, Box::new(op))
        } else {
            op
        };
        if matches!(op, Op::Alt(5, _)) {
            // the semantic predicate answers by itself; what it answered is recorded during the run
            oracle.clear();
        }
        // faults of the primary run: a panicking callback / a panicking Drop now and then
        // profile `std`: clean runs only (compared with std::vec::Vec); `drops` / `deep`: more faults
        let (pp, pb) = match self.profile.as_str() {
            "std" => (0, 0),
            "drops" | "deep" => (5, 5),
            _ => (3, 3),
        };
        if !oracle.is_empty() && self.rng.chance(pp, 24) {
            let k = self.rng.below(oracle.len() as u64) as usize;
            oracle[k] = Oc::Panic;
        }
        let mut bombs = Vec::new();
        if !ids.is_empty() && self.rng.chance(pb, 24) {
            bombs.push(*self.rng.pick(ids));
        }
        Step { op, oracle, bombs }
    }

    /// runs all steps of a trace on one real vector
    fn exec<'a>(&mut self, v: DynVec<'a>, spec: &Spec) -> Option<DynVec<'a>> {
        let mut cur: Option<DynVec<'a>> = Some(v);
        self.announce(cur.as_ref().unwrap().as_ref(), "a", spec);
        let nsteps = spec.script.as_ref().map_or(spec.nops, |s| s.len());
        for si in 0..nsteps {
            let Some(v) = cur.as_mut() else { break };
            let step = match &spec.script {
                Some(s) => s[si].clone(),
                None => {
                    let (pre, pre_cap) = (v.ids(), v.cap());
                    self.gen_step(spec.kind, &pre, pre_cap)
                }
            };
            self.do_step(&mut cur, "a", spec, step, spec.script.is_none());
        }
        cur
    }

    /// `new …` line + capacity promise of the constructor
    fn announce(&mut self, v: &dyn VecDyn<'_>, h: &str, spec: &Spec) {
        let zst = spec.zst;
        *self.kind_hist.entry(format!("{}{}", spec.kind.tok(), if zst { "-zst" } else { "" })).or_insert(0) += 1;
        // ---- creation: capacity promise of `with_capacity_in` / exact length of a boxed slice
        let cap0 = v.cap();
        self.oracle_checks += 1;
        if zst {
            if spec.kind != Kind::Boxed && cap0 != usize::MAX {
                self.oracle("C08", format!("{} of a zero-sized type reports capacity {cap0}, expected usize::MAX", spec.kind.tok()));
            }
        } else if cap0 < spec.cap || (spec.kind == Kind::Bump || spec.kind == Kind::Fixed) && cap0 != spec.cap && spec.cap != 0 {
            self.oracle("C08", format!("{} created with capacity {} reports capacity {cap0}", spec.kind.tok(), spec.cap));
        }
        if !zst {
            let _ = writeln!(
                self.out,
                "new {h} {} cap={} ids={} addr={} esize={} align={}",
                spec.kind.tok(),
                cap0,
                csv(&v.ids()),
                v.addr(),
                std::mem::size_of::<E>(),
                std::mem::align_of::<E>()
            );
        }
        let _ = take_created();
        let _ = take_log();
    }

    /// one operation on the vector `cur` (handle `h`): run, observe, log, evaluate the oracles
    fn do_step<'a>(&mut self, cur: &mut Option<DynVec<'a>>, h: &str, spec: &Spec, step: Step, allow_variants: bool) {
        let zst = spec.zst;
        {
            let Some(v) = cur.as_mut() else { return };
            let pre = v.ids();
            let pre_len = v.len();
            let pre_cap = v.cap();
            let pre_addr = v.addr();
            let step_op = step.op.clone();
            let stash_before = stash_len();
            let zc_before = zcounts();
            set_oracle(&step.oracle, &step.bombs);
            let _ = take_args();
            let _ = take_std_args();
            let _ = take_observed();
            if zst && !step.bombs.is_empty() {
                set_zbomb(Some(step.bombs[0] % 3));
            }
            let consuming = step.op.consumes();
            let r = if consuming {
                let owned = cur.take().unwrap();
                match catch_unwind(AssertUnwindSafe(move || owned.consume(&step_op))) {
                    Ok((text, next)) => {
                        *cur = next;
                        Ok(text)
                    }
                    Err(p) => Err(p),
                }
            } else {
                catch_unwind(AssertUnwindSafe(|| v.apply(&step.op)))
            };
            let used_n = used();
            clear_oracle();
            set_src_panic_at(None);
            let iargs = take_args();
            let observed = take_observed();
            let exit = match &r {
                Ok(s) if s.is_empty() => "ret".to_string(),
                Ok(s) => format!("ret:{s}"),
                Err(p) if p.is::<BombPanic>() => "panic:drop".to_string(),
                Err(_) => "panic".to_string(),
            };
            *self.op_hist.entry(step.op.name().to_string()).or_insert(0) += 1;
            *self.exit_hist.entry(exit.split(':').next().unwrap().to_string() + if exit == "panic:drop" { ":drop" } else { "" }).or_insert(0) += 1;
            let gone = cur.is_none();
            let (post, post_len, post_cap, post_addr) = match cur.as_ref() {
                Some(v) => (v.ids(), v.len(), v.cap(), v.addr()),
                None => (Vec::new(), 0, 0, 0),
            };
            let drops = take_log();
            let created = take_created();
            let esc: Vec<u64> = stash_ids()[stash_before.min(stash_len())..].to_vec();
            let optext = format!(
                "op {} {h}{} o={} bombs={} capin={}",
                step.op.name(),
                step.op.args(),
                if matches!(&step.op, Op::Alt(5, _)) { oracle_text(&observed.iter().map(|b| Oc::Ret(*b)).collect::<Vec<_>>()) } else { oracle_text(&step.oracle) },
                csv(&step.bombs),
                if post_cap == usize::MAX { 0 } else { post_cap }
            );
            // (`MutBumpVecRev::extend_from_within_clone` is not modelled: oracles only)
            let rev_within = spec.kind == Kind::Rev && matches!(&step.op, Op::ExtendWithinClone(..));
            if !zst && (!step.op.modelled() || rev_within) {
                // checked by the oracles only; the model is re-synchronised with what the vector holds now
                let _ = writeln!(
                    self.out,
                    "x{optext} => ids={} len={} cap={} drops={} esc={} exit={} used={}",
                    csv(&post),
                    post_len,
                    post_cap,
                    csv(&drops),
                    csv(&esc),
                    exit,
                    used_n
                );
                if !gone {
                    let _ = writeln!(self.out, "new {h} {} cap={} ids={} addr={}", spec.kind.tok(), post_cap, csv(&post), post_addr);
                }
                self.count("oracle-only-ops");
            } else if !zst && gone {
                let _ = writeln!(self.out, "{optext} => gone drops={} esc={} exit={} used={}", csv(&drops), csv(&esc), exit, used_n);
            } else if !zst {
                let _ = writeln!(
                    self.out,
                    "{optext} => ids={} len={} cap={} drops={} esc={} exit={} used={}{}",
                    csv(&post),
                    post_len,
                    post_cap,
                    csv(&drops),
                    csv(&esc),
                    exit,
                    used_n,
                    // the pairs `same_bucket` was handed (the model computes them as well)
                    if step.op.name() == "dedup_by" { format!(" args={}", args_text(&iargs)) } else { String::new() }
                );
            } else {
                let _ = writeln!(self.out, "zop {} {h}{} => len={} exit={} used={}", step.op.name(), step.op.args(), post_len, exit, used_n);
            }
            // ---------------- C06: exactly-once accounting after the operation
            self.oracle_checks += 1;
            if zst {
                let (c, d, s) = zcounts();
                let created_n = c - zc_before.0;
                let dropped_n = d - zc_before.1;
                let stashed_n = s - zc_before.2;
                // owned before + created = owned after + dropped + handed out
                let lhs = pre_len as u64 + created_n;
                let rhs = post_len as u64 + dropped_n + stashed_n;
                if rhs > lhs {
                    self.oracle("C06", format!("zst {} `{optext}`: {} values accounted for but only {} existed (a value was dropped twice or invented)", spec.kind.tok(), rhs, lhs));
                } else if rhs < lhs && exit != "panic:drop" && !matches!(&step.op, Op::Alt(6, _)) {
                    self.oracle("C06", format!("zst {} `{optext}`: {} values existed but only {} are owned/dropped/handed out afterwards (lost)", spec.kind.tok(), lhs, rhs));
                }
            } else {
                if corrupt() > 0 {
                    self.oracle("C06", format!("{} `{optext}`: an element with a broken check word was observed (moved-from or uninitialised memory was read)", spec.kind.tok()));
                }
                let mut universe: Vec<u64> = pre.clone();
                universe.extend_from_slice(&created);
                let mut seen: BTreeMap<u64, u32> = BTreeMap::new();
                for id in post.iter().chain(drops.iter()).chain(esc.iter()) {
                    *seen.entry(*id).or_insert(0) += 1;
                }
                for (id, n) in &seen {
                    if *n > 1 {
                        let nd = drops.iter().filter(|x| *x == id).count();
                        let what = if nd > 1 { "was dropped twice" } else { "was dropped or handed out although it is still owned by the vector" };
                        self.oracle("C06", format!("{} `{optext}` from ids={}: value {id} {what} (after: ids={} drops={} handed-out={})", spec.kind.tok(), csv(&pre), csv(&post), csv(&drops), csv(&esc)));
                        break;
                    }
                    if !universe.contains(id) {
                        self.oracle("C06", format!("{} `{optext}` from ids={}: value {id} appeared from nowhere (after: ids={} drops={})", spec.kind.tok(), csv(&pre), csv(&post), csv(&drops)));
                        break;
                    }
                }
                // (what is still inside a LEAKED iterator's range may leak: only "nothing twice" is asked for)
                if exit != "panic:drop" && !matches!(&step.op, Op::Alt(6, _)) {
                    for id in &universe {
                        if !seen.contains_key(id) {
                            self.oracle("C06", format!("{} `{optext}` from ids={}: value {id} is lost: neither owned, nor dropped, nor handed out (after: ids={} drops={} handed-out={})", spec.kind.tok(), csv(&pre), csv(&post), csv(&drops), csv(&esc)));
                            break;
                        }
                    }
                }
            }
            // ---------------- C08: same behaviour as std::vec::Vec, capacity promises
            self.oracle_checks += 1;
            if gone {
                // the vector was consumed: only the accounting above applies; std comparison of the yields below
            }
            if post_len > post_cap {
                self.oracle("C08", format!("{} `{optext}`: len {post_len} > capacity {post_cap}", spec.kind.tok()));
            }
            let additional = step.op.additional(pre_len);
            let fits = pre_len + additional <= pre_cap;
            match spec.kind {
                Kind::Boxed => {}
                Kind::Fixed => {
                    if !zst && !gone && post_cap != pre_cap {
                        self.oracle("C08", format!("fixed `{optext}`: capacity changed from {pre_cap} to {post_cap}"));
                    }
                    if !zst && !gone && post_addr != pre_addr && pre_cap != 0 {
                        self.oracle("C08", format!("fixed `{optext}`: the buffer moved"));
                    }
                }
                Kind::Bump | Kind::Mut | Kind::Rev => {
                    // (a source that over-reports its length may make `splice` reserve more than it ends up using)
                    let lying = matches!(&step.op, Op::Splice(_, _, _, _, _, Some(_)) | Op::ExtendIter(_, _, Some(_)) | Op::ShrinkTo(_));
                    if fits && !lying && !zst && !gone && !consuming && step.op != Op::ShrinkToFit && (post_cap != pre_cap || (post_addr != pre_addr && pre_cap != 0)) {
                        self.oracle("C08", format!("{} `{optext}`: reallocated although len {pre_len} + {additional} <= capacity {pre_cap} (capacity {pre_cap} -> {post_cap}, address {pre_addr:#x} -> {:#x})", spec.kind.tok(), post_addr));
                    }
                }
            }
            match &step.op {
                Op::Reserve(n) | Op::ReserveExact(n) if exit == "ret" && !zst => {
                    self.count("reserve-promise-checked");
                    if post_cap < pre_len + n {
                        self.oracle("C08", format!("{} `{optext}` from len={pre_len} cap={pre_cap}: capacity {post_cap} afterwards is less than len + additional", spec.kind.tok()));
                    }
                }
                Op::ShrinkTo(n) if !zst => {
                    // either nothing happened or the capacity is exactly max(len, min_capacity); never below the length
                    let want = pre_len.max(*n);
                    if post_cap != pre_cap && (post_cap != want || want >= pre_cap) || post_cap < post_len {
                        self.oracle("C08", format!("bump `{optext}` from len={pre_len} cap={pre_cap}: capacity {post_cap} afterwards (allowed: {pre_cap} or max(len, min_capacity) = {want} when that is smaller)"));
                    }
                }
                Op::ShrinkToFit if !zst => {
                    if post_cap > pre_cap || post_cap < post_len {
                        self.oracle("C08", format!("bump `{optext}` from len={pre_len} cap={pre_cap}: capacity {post_cap} afterwards", ));
                    }
                }
                _ => {}
            }
            if zst && !gone && spec.kind != Kind::Boxed && post_cap != usize::MAX {
                self.oracle("C08", format!("{} of a zero-sized type `{optext}`: capacity {post_cap}, expected usize::MAX", spec.kind.tok()));
            }
            if bad_refs() > 0 && !zst {
                self.oracle("C08", format!("{} `{optext}`: the reference returned by push_mut / insert_mut does not point at the slot the value went into", spec.kind.tok()));
            }
            // a later allocation from the same arena must not touch the vector (it would if the vector kept a stale
            // buffer pointer, e.g. after a shrink that moved the block): always after the shrinking operations,
            // now and then after the others
            if !zst && !gone && spec.kind == Kind::Bump {
                let always = matches!(&step.op, Op::ShrinkTo(_) | Op::ShrinkToFit | Op::Splice(..));
                if always || self.rng.chance(1, 4) {
                    if let Some(v) = cur.as_ref() {
                        let pattern_ok = v.poke();
                        let again = v.ids();
                        self.count("arena-poked-and-reread");
                        if again != post || corrupt() > 0 || !pattern_ok {
                            self.oracle("C08", format!("bump `{optext}` from ids={}: the vector read ids={} right after the call, but ids={} after ANOTHER allocation from the same arena (the vector does not own the memory it points at)", csv(&pre), csv(&post), csv(&again)));
                        }
                    }
                }
            }
            let clean = !step.oracle.contains(&Oc::Panic) && step.bombs.is_empty();
            if clean {
                let mut sv = pre.clone();
                let expected = if spec.kind == Kind::Rev { std_apply_rev(&mut sv, &step.op, &step.oracle) } else { std_apply(&mut sv, &step.op, &step.oracle) };
                let fixed_full = spec.kind == Kind::Fixed && !zst && !fits;
                match expected {
                    Err(()) => {
                        self.count("std-arg-panic");
                        if exit != "panic" {
                            self.oracle("C08", format!("{} `{optext}` from len={pre_len}: std::vec::Vec panics on this argument, the implementation ended with {exit}", spec.kind.tok()));
                        } else if post != pre && !zst {
                            self.oracle("C08", format!("{} `{optext}`: the rejected call changed the contents {} -> {}", spec.kind.tok(), csv(&pre), csv(&post)));
                        }
                    }
                    Ok((_, _)) if fixed_full => {
                        self.count("fixed-full");
                        if exit != "panic" {
                            self.oracle("C08", format!("fixed `{optext}` from len={pre_len} cap={pre_cap}: needs {additional} more slots than the fixed capacity has, but ended with {exit}"));
                        } else if post != pre && !zst {
                            self.oracle("C08", format!("fixed `{optext}`: the refused call changed the contents {} -> {}", csv(&pre), csv(&post)));
                        }
                    }
                    Ok((ret, _)) if matches!(&step.op, Op::Splice(_, _, _, _, _, Some(_)) | Op::ExtendIter(_, _, Some(_))) => {
                        // a lying source: `Vec::splice` and the implementation may reserve at different moments, so one
                        // may hit "capacity overflow" where the other does not.  Same outcome => same vector; otherwise
                        // both must still be `head ++ (a prefix of the source) ++ tail` (what `Vec` guarantees after a
                        // panic inside its `Splice::drop`).
                        let (a, b, ids) = match &step.op {
                            Op::Splice(a, b, ids, _, _, _) => (a, b, ids),
                            Op::ExtendIter(ids, _, _) => (&pre_len, &pre_len, ids),
                            _ => unreachable!(),
                        };
                        let std_panicked = ret.starts_with('!');
                        let impl_panicked = exit == "panic";
                        let prefix_form = |got: &[u64]| -> bool {
                            (0..=ids.len()).any(|k| {
                                let mut w: Vec<u64> = pre[..*a].to_vec();
                                w.extend_from_slice(&ids[..k]);
                                w.extend_from_slice(&pre[*b..]);
                                w == got
                            })
                        };
                        self.count(match (std_panicked, impl_panicked) {
                            (false, false) => "splice-lie: both return",
                            (true, true) => "splice-lie: both panic (capacity overflow)",
                            (true, false) => "splice-lie: only std panics",
                            (false, true) => "splice-lie: only the implementation panics",
                        });
                        if zst {
                            if !impl_panicked && !std_panicked && post_len != sv.len() {
                                self.oracle("C08", format!("zst {} `{optext}` from len={pre_len}: std gives len {}, implementation len {post_len}", spec.kind.tok(), sv.len()));
                            }
                        } else if exit == "panic:drop" {
                            self.oracle("C08", format!("{} `{optext}`: a destructor panicked although none was told to", spec.kind.tok()));
                        } else if !std_panicked && !impl_panicked {
                            let want_exit = if ret.is_empty() { "ret".to_string() } else { format!("ret:{ret}") };
                            if post != sv || exit != want_exit {
                                self.oracle("C08", format!("{} `{optext}` from ids={}: std::vec::Vec gives ids={} {want_exit}, the implementation ids={} {exit}", spec.kind.tok(), csv(&pre), csv(&sv), csv(&post)));
                            }
                        } else if !prefix_form(&post) || !prefix_form(&sv) {
                            // (both may panic at different moments: `Vec` reserves while pushing, the implementation up front)
                            self.oracle("C08", format!("{} `{optext}` from ids={}: after the capacity-overflow panic the vector is ids={} (std: {}), not head ++ prefix of the source ++ tail", spec.kind.tok(), csv(&pre), csv(&post), csv(&sv)));
                        }
                        if impl_panicked && !zst && !prefix_form(&post) {
                            // C07: a failed (here: capacity overflow inside `Splice::drop`) operation leaves valid contents
                            self.oracle("C07", format!("{} `{optext}` from ids={}: the call unwound with a capacity overflow and left ids={} — an element was duplicated or lost (expected head ++ what was written ++ tail)", spec.kind.tok(), csv(&pre), csv(&post)));
                            self.oracle("C08", format!("{} `{optext}` from ids={}: after the panic the vector is ids={}, not head ++ prefix of the source ++ tail", spec.kind.tok(), csv(&pre), csv(&post)));
                        }
                    }
                    Ok((ret, _)) if matches!(&step.op, Op::Alt(k, _) if *k >= 100) => {
                        // the source panicked (or ran dry before it would have): std under catch_unwind is the reference
                        let std_panicked = ret.starts_with('!');
                        let want_exit = if std_panicked { "panic".to_string() } else if ret.is_empty() { "ret".to_string() } else { format!("ret:{ret}") };
                        if !zst && (post != sv || exit != want_exit) {
                            self.oracle("C08", format!("{} `{optext}` from ids={}: std::vec::Vec gives ids={} {want_exit}, the implementation ids={} {exit}", spec.kind.tok(), csv(&pre), csv(&sv), csv(&post)));
                        }
                    }
                    Ok((ret, consumed)) => {
                        let want_exit = if ret.is_empty() { "ret".to_string() } else { format!("ret:{ret}") };
                        if zst {
                            if exit.starts_with("panic") || post_len != sv.len() {
                                self.oracle("C08", format!("zst {} `{optext}` from len={pre_len}: std gives len {} , implementation len {post_len} exit {exit}", spec.kind.tok(), sv.len()));
                            }
                        } else if exit != want_exit || post != sv {
                            self.oracle("C08", format!("{} `{optext}` from ids={}: std::vec::Vec gives ids={} {want_exit}, the implementation ids={} {exit}", spec.kind.tok(), csv(&pre), csv(&sv), csv(&post)));
                            if (spec.kind == Kind::Mut || spec.kind == Kind::Rev) && step.op.grows() {
                                // C15: an exclusive-borrow collection yields exactly the elements that were pushed, also when
                                // filling had to continue in a bigger chunk
                                self.oracle("C15", format!("{} `{optext}` from ids={} (capacity {pre_cap} -> {post_cap}): holds ids={} afterwards, expected ids={}", spec.kind.tok(), csv(&pre), csv(&post), csv(&sv)));
                            }
                        }
                        let sargs = take_std_args();
                        let has_cb = matches!(&step.op, Op::Retain | Op::DedupBy | Op::DedupByKey | Op::ExtractIf(_) | Op::PopIf | Op::MapInPlace) || matches!(&step.op, Op::Alt(4 | 5, _)) || matches!(&step.op, Op::Alt(6, i) if matches!(**i, Op::ExtractIf(_)));
                        if has_cb && !zst && spec.kind != Kind::Rev && iargs != sargs {
                            self.oracle("C08", format!("{} `{optext}` from ids={}: the callback was handed {} — std::vec::Vec hands its callback {}", spec.kind.tok(), csv(&pre), args_text(&iargs), args_text(&sargs)));
                        }
                        if used_n != consumed {
                            self.oracle("C08", format!("{} `{optext}`: {} callback invocations, std::vec::Vec makes {}", spec.kind.tok(), used_n, consumed));
                        }
                    }
                }
                // ---- variants: the same operation from the same state with a panic at every callback index
                if allow_variants {
                    let mut ks: Vec<usize> = (0..step.oracle.len()).collect();
                    while ks.len() > self.max_variants_per_step {
                        let i = self.rng.below(ks.len() as u64) as usize;
                        ks.remove(i);
                    }
                    for k in ks {
                        let mut o = step.oracle[..=k].to_vec();
                        o[k] = Oc::Panic;
                        self.variants.push(Spec {
                            kind: spec.kind,
                            zst,
                            settings: spec.settings,
                            ids: pre.clone(),
                            cap: if pre_cap == usize::MAX { pre_len } else { pre_cap },
                            script: Some(vec![Step { op: step.op.clone(), oracle: o, bombs: vec![] }]),
                            nops: 1,
                            label: "panic-at-k",
                        });
                    }
                    // … and with each value that the operation dropped panicking in its `Drop`
                    // (zero-sized values have no identity: the k-th destructor call panics, k = 0, 1, 2)
                    let mut ds = if zst {
                        let n = zcounts().1 - zc_before.1;
                        (0..n.min(3)).collect::<Vec<u64>>()
                    } else {
                        drops.clone()
                    };
                    while ds.len() > self.max_variants_per_step / 2 {
                        let i = self.rng.below(ds.len() as u64) as usize;
                        ds.remove(i);
                    }
                    for d in ds {
                        self.variants.push(Spec {
                            kind: spec.kind,
                            zst,
                            settings: spec.settings,
                            ids: pre.clone(),
                            cap: if pre_cap == usize::MAX { pre_len } else { pre_cap },
                            script: Some(vec![Step { op: step.op.clone(), oracle: step.oracle.clone(), bombs: vec![d] }]),
                            nops: 1,
                            label: "bomb",
                        });
                    }
                }
            }
        }
    }

    /// the owner goes away: everything it still holds is dropped exactly once
    fn finish(&mut self, spec: &Spec, had: bool, owned: Vec<u64>, owned_len: usize, dropped: Result<(), Box<dyn std::any::Any + Send>>, zc_before: (u64, u64, u64)) {
        let drops = take_log();
        let exit = match dropped {
            Ok(()) => "ret",
            Err(p) if p.is::<BombPanic>() => "panic:drop",
            Err(_) => "panic",
        };
        self.oracle_checks += 1;
        if spec.zst {
            let (_, d, _) = zcounts();
            let n = d - zc_before.1;
            if n != owned_len as u64 {
                self.oracle("C06", format!("zst {}: dropping the owner of {owned_len} values ran {n} destructors", spec.kind.tok()));
            }
        } else {
            if had {
                let _ = writeln!(self.out, "drop a => drops={} exit={exit}", csv(&drops));
            }
            if drops != owned {
                self.oracle("C06", format!("{}: dropping the owner of ids={} dropped {}", spec.kind.tok(), csv(&owned), csv(&drops)));
            }
        }
        clear_stash();
        let _ = take_log();
        let _ = take_created();
    }

    pub fn summary(&mut self) {
        let hist = |m: &BTreeMap<String, u64>| m.iter().map(|(k, v)| format!("{k}={v}")).collect::<Vec<_>>().join(" ");
        let _ = writeln!(self.out, "# ops {}", hist(&self.op_hist));
        let _ = writeln!(self.out, "# exits {}", hist(&self.exit_hist));
        let _ = writeln!(self.out, "# kinds {}", hist(&self.kind_hist));
        let _ = writeln!(self.out, "# branches {}", self.counters.iter().map(|(k, v)| format!("{k}={v}")).collect::<Vec<_>>().join(" "));
        let rf = range_form_hist();
        let _ = writeln!(self.out, "# range-forms {}", RANGE_FORMS.iter().zip(rf.iter()).map(|(n, c)| format!("`{n}`={c}")).collect::<Vec<_>>().join(" "));
        let _ = writeln!(self.out, "# summary oracle_checks={} oracle_failures={}", self.oracle_checks, self.oracle_failures);
    }
}

macro_rules! run_with_settings {
    ($fname:ident, $S:ty) => {
        fn $fname<T: Elem>(ctx: &mut Ctx, spec: &Spec) {
            let mut bump: Bump<Global, $S> = Bump::new();
            let v: DynVec = match spec.kind {
                Kind::Boxed => {
                    let v: BumpBox<[T]> = bump.alloc_iter_exact(spec.ids.iter().map(|i| T::make(*i)));
                    Box::new(v)
                }
                Kind::Fixed => {
                    let mut v: FixedBumpVec<T> = FixedBumpVec::with_capacity_in(spec.cap, &bump);
                    for i in &spec.ids {
                        v.push(T::make(*i));
                    }
                    Box::new(v)
                }
                Kind::Bump => {
                    let mut v: BumpVec<T, &Bump<Global, $S>> = BumpVec::with_capacity_in(spec.cap, &bump);
                    for i in &spec.ids {
                        v.push(T::make(*i));
                    }
                    Box::new(v)
                }
                Kind::Mut => {
                    let mut v: MutBumpVec<T, &mut Bump<Global, $S>> = MutBumpVec::with_capacity_in(spec.cap, &mut bump);
                    for i in &spec.ids {
                        v.push(T::make(*i));
                    }
                    Box::new(v)
                }
                Kind::Rev => {
                    let mut v: MutBumpVecRev<T, &mut Bump<Global, $S>> = MutBumpVecRev::with_capacity_in(spec.cap, &mut bump);
                    // pushes go to the front: insert back to front to obtain `ids` in order
                    for i in spec.ids.iter().rev() {
                        v.push(T::make(*i));
                    }
                    Box::new(v)
                }
            };
            let left = ctx.exec(v, spec);
            let (owned, n) = match &left {
                Some(v) => (v.ids(), v.len()),
                None => (Vec::new(), 0),
            };
            let zc = zcounts();
            let had = left.is_some();
            let r = catch_unwind(AssertUnwindSafe(move || drop(left)));
            ctx.finish(spec, had, owned, n, r, zc);
        }
    };
}
run_with_settings!(run_s1u, S1U);
run_with_settings!(run_s1d, S1D);
run_with_settings!(run_s8u, S8U);
run_with_settings!(run_s16d, S16D);

pub fn run_spec(ctx: &mut Ctx, spec: &Spec) {
    let sname = ["min-align 1 up", "min-align 1 down", "min-align 8 up", "min-align 16 down"][spec.settings as usize];
    let _ = writeln!(
        ctx.out,
        "# trace {} {} kind={} elem={} arena={} len={} cap={}",
        ctx.trace_no,
        spec.label,
        spec.kind.tok(),
        if spec.zst { "zst" } else { "sized" },
        sname,
        spec.ids.len(),
        spec.cap
    );
    zreset();
    match (spec.settings, spec.zst) {
        (0, false) => run_s1u::<E>(ctx, spec),
        (1, false) => run_s1d::<E>(ctx, spec),
        (2, false) => run_s8u::<E>(ctx, spec),
        (_, false) => run_s16d::<E>(ctx, spec),
        (0, true) => run_s1u::<Z>(ctx, spec),
        (1, true) => run_s1d::<Z>(ctx, spec),
        (2, true) => run_s8u::<Z>(ctx, spec),
        (_, true) => run_s16d::<Z>(ctx, spec),
    }
}
