// Profile `failing` — the collection clause of C07: a collection on which a single
// push / insert / reserve / extend / append / resize FAILED still has its previous length and contents, nothing
// is leaked or dropped twice, `try_*` methods return `Err`, panicking methods never return normally.
//
// The vectors live in a `Bump` over the test base allocator `A0` (harness/src/base.rs) with one small chunk;
// after the set-up every further base allocation is refused (`fail_all_from`).  The vector is brought to a
// state in which the operation needs memory the chunk does not have (`full`: len == capacity and the chunk is
// used up; `roomy`: some spare capacity, the request is bigger than a chunk), then EVERY `try_*` operation is
// run in turn on the same vector: each must return `Err` and leave length, contents, capacity, buffer address
// untouched; exactly the by-value arguments are dropped (once), no callback runs.  Then the panicking twins
// with a request whose capacity computation overflows (no allocator call: "capacity overflow") must unwind
// with the vector unchanged.  Finally the vector is used (pop / push) and dropped: every value exactly once.
// The failed operations are also replayed on the model (`op … => … exit=panic`): a `BumpVec` whose allocator
// refuses is announced as kind `fixed` ("every growth is refused"), `MutBumpVec(Rev)` with `capin` = the
// capacity it has (the arena has nothing more).

use verif_harness::base::{A0, BASE};

type FUp = BumpSettings<1, true>;
type FDown = BumpSettings<1, false>;

#[derive(Clone, Copy, PartialEq, Eq, Debug)]
enum FKind {
    Fixed,
    Bump,
    Mut,
    Rev,
}
impl FKind {
    fn tok(self) -> &'static str {
        match self {
            FKind::Fixed => "FixedBumpVec",
            FKind::Bump => "BumpVec",
            FKind::Mut => "MutBumpVec",
            FKind::Rev => "MutBumpVecRev",
        }
    }
    /// how the vector is announced to the model
    fn model_kind(self) -> &'static str {
        match self {
            FKind::Fixed | FKind::Bump => "fixed",
            FKind::Mut => "mut",
            FKind::Rev => "rev",
        }
    }
}

struct Obs {
    ids: Vec<u64>,
    len: usize,
    cap: usize,
    addr: usize,
}

/// what one failed call must have left behind
fn judge_failed(ctx: &mut Ctx, kind: FKind, state: &str, call: &str, line: Option<String>, failed: bool, how: &str, pre: &Obs, post: &Obs, args: &[u64], used_n: usize) {
    let drops = take_log();
    let created = take_created();
    ctx.oracle_checks += 1;
    *ctx.op_hist.entry(format!("failing:{}", call.split('(').next().unwrap_or(call))).or_insert(0) += 1;
    let what = format!("{} ({state}, len={} cap={}) `{call}`", kind.tok(), pre.len, pre.cap);
    if !failed {
        ctx.oracle("C07", format!("{what}: expected {how}, but the call returned normally (contents now {})", csv(&post.ids)));
    }
    if post.ids != pre.ids || post.len != pre.len {
        ctx.oracle("C07", format!("{what}: the failed call changed the contents {} -> {}", csv(&pre.ids), csv(&post.ids)));
    }
    if post.cap != pre.cap || post.addr != pre.addr {
        ctx.oracle("C07", format!("{what}: the failed call changed capacity {} -> {} / buffer {:#x} -> {:#x}", pre.cap, post.cap, pre.addr, post.addr));
    }
    if drops != args {
        ctx.oracle("C07", format!("{what}: the failed call ran the destructors of {} (expected exactly its by-value arguments {})", csv(&drops), csv(args)));
    }
    if created != args {
        ctx.oracle("C07", format!("{what}: the failed call created values {} (arguments: {})", csv(&created), csv(args)));
    }
    if used_n != 0 {
        ctx.oracle("C07", format!("{what}: {used_n} callback(s) ran although the reservation failed first"));
    }
    if corrupt() > 0 {
        ctx.oracle("C07", format!("{what}: an element with a broken check word was observed"));
    }
    if let Some(l) = line {
        let _ = writeln!(ctx.out, "{l} => ids={} len={} cap={} drops={} esc=- exit={} used={used_n}", csv(&post.ids), post.len, post.cap, csv(&drops), if failed { "panic" } else { "ret" });
    }
}

macro_rules! failing_case {
    ($fname:ident, $S:ty) => {
        /// one vector of the given kind, brought to the failing state, every operation in turn
        fn $fname(ctx: &mut Ctx, kind: FKind, len: usize, roomy: bool) {
            ctx.next_id = 1;
            zreset();
            let _ = take_log();
            let _ = take_created();
            clear_stash();
            BASE.with(|b| b.borrow_mut().reset(seed() ^ (len as u64 * 31 + roomy as u64)));
            let state = if roomy { "roomy" } else { "full" };
            let _ = writeln!(ctx.out, "# trace {} failing kind={} state={state} len={len} up={}", ctx.trace_no, kind.tok(), std::any::type_name::<$S>().contains("true"));
            ctx.trace_no += 1;
            ctx.count(match (kind, roomy) {
                (FKind::Fixed, false) => "failing:FixedBumpVec full",
                (FKind::Fixed, true) => "failing:FixedBumpVec roomy",
                (FKind::Bump, false) => "failing:BumpVec full chunk",
                (FKind::Bump, true) => "failing:BumpVec roomy",
                (FKind::Mut, false) => "failing:MutBumpVec full chunk",
                (FKind::Mut, true) => "failing:MutBumpVec roomy",
                (FKind::Rev, false) => "failing:MutBumpVecRev full chunk",
                (FKind::Rev, true) => "failing:MutBumpVecRev roomy",
            });
            let mut bump: Bump<A0, $S> = match Bump::try_with_size_in(512, A0::default()) {
                Ok(b) => b,
                Err(_) => {
                    ctx.oracle("C07", "the harness could not create its arena".to_string());
                    return;
                }
            };
            let ids: Vec<u64> = (0..len).map(|_| ctx.fresh()).collect();
            let spare = if roomy { 2 } else { 0 };
            // a request bigger than any chunk the (refusing) base allocator would have to provide
            let big = 4096usize;
            macro_rules! body {
                ($v:ident, $ids:ident, $has_exact:expr, $has_within_line:expr) => {{
                    let _ = take_log();
                    let _ = take_created();
                    let pre = Obs { ids: $v.as_slice().iter().map(|e| e.ident()).collect(), len: $v.len(), cap: $v.capacity(), addr: $v.as_ptr() as usize };
                    if pre.ids != $ids {
                        ctx.oracle("C07", format!("{} set-up: holds {} instead of {}", kind.tok(), csv(&pre.ids), csv(&$ids)));
                    }
                    let _ = writeln!(ctx.out, "new f {} cap={} ids={} addr={}", kind.model_kind(), pre.cap, csv(&pre.ids), pre.addr);
                    let room = pre.cap - pre.len;
                    // number of additional elements that cannot be had
                    let n = if kind == FKind::Fixed { room + 1 + ctx.rng.below(3) as usize } else if roomy { big } else { 1 + ctx.rng.below(3) as usize };
                    macro_rules! now {
                        () => {
                            Obs { ids: $v.as_slice().iter().map(|e| e.ident()).collect(), len: $v.len(), cap: $v.capacity(), addr: $v.as_ptr() as usize }
                        };
                    }
                    let opline = |name: &str, args: String, o: &[Oc], cap: usize| -> String { format!("op {name} f{args} o={} bombs=- capin={cap}", oracle_text(o)) };
                    // ---- try_* : must be Err
                    if !roomy || room == 0 {
                        let id = ctx.fresh();
                        set_oracle(&[], &[]);
                        let r = $v.try_push(E::make(id));
                        let u = used();
                        clear_oracle();
                        judge_failed(ctx, kind, state, "try_push(x)", Some(opline("push", format!(" {id}"), &[], pre.cap)), r.is_err(), "Err", &pre, &now!(), &[id], u);
                        let id = ctx.fresh();
                        let at = pre.len / 2;
                        set_oracle(&[], &[]);
                        let r = $v.try_insert(at, E::make(id));
                        let u = used();
                        clear_oracle();
                        judge_failed(ctx, kind, state, "try_insert(mid, x)", Some(opline("insert", format!(" {at} {id}"), &[], pre.cap)), r.is_err(), "Err", &pre, &now!(), &[id], u);
                    }
                    {
                        set_oracle(&[], &[]);
                        let r = $v.try_reserve(n);
                        let u = used();
                        clear_oracle();
                        judge_failed(ctx, kind, state, "try_reserve(n)", Some(opline("reserve", format!(" {n}"), &[], pre.cap)), r.is_err(), "Err", &pre, &now!(), &[], u);
                    }
                    {
                        // `Clone::clone` would consume the oracle: it must not be called at all
                        let o: Vec<Oc> = (0..n.min(8)).map(|_| Oc::Ret(ctx.fresh())).collect();
                        let src: Vec<SrcElem<E>> = (0..n).map(|_| SrcElem::new()).collect();
                        set_oracle(&o, &[]);
                        let r = $v.try_extend_from_slice_clone(SrcElem::as_slice(&src));
                        let u = used();
                        clear_oracle();
                        judge_failed(ctx, kind, state, "try_extend_from_slice_clone(n)", Some(opline("extend_clone", format!(" {n}"), &o, pre.cap)), r.is_err(), "Err", &pre, &now!(), &[], u);
                    }
                    if pre.len > room && !roomy {
                        let o: Vec<Oc> = (0..pre.len).map(|_| Oc::Ret(ctx.fresh())).collect();
                        set_oracle(&o, &[]);
                        let r = $v.try_extend_from_within_clone(0..pre.len);
                        let u = used();
                        clear_oracle();
                        let line = if $has_within_line { Some(opline("extend_from_within_clone", format!(" 0 {}", pre.len), &o, pre.cap)) } else { None };
                        judge_failed(ctx, kind, state, "try_extend_from_within_clone(0..len)", line, r.is_err(), "Err", &pre, &now!(), &[], u);
                    }
                    {
                        let id = ctx.fresh();
                        let o: Vec<Oc> = (0..n.min(8)).map(|_| Oc::Ret(ctx.fresh())).collect();
                        set_oracle(&o, &[]);
                        let r = $v.try_resize(pre.len + n, E::make(id));
                        let u = used();
                        clear_oracle();
                        judge_failed(ctx, kind, state, "try_resize(len + n, x)", Some(opline("resize", format!(" {} {id}", pre.len + n), &o, pre.cap)), r.is_err(), "Err", &pre, &now!(), &[id], u);
                    }
                    {
                        let o: Vec<Oc> = (0..n.min(8)).map(|_| Oc::Ret(ctx.fresh())).collect();
                        set_oracle(&o, &[]);
                        let r = $v.try_resize_with(pre.len + n, E::gen_cb);
                        let u = used();
                        clear_oracle();
                        judge_failed(ctx, kind, state, "try_resize_with(len + n, f)", Some(opline("resize_with", format!(" {}", pre.len + n), &o, pre.cap)), r.is_err(), "Err", &pre, &now!(), &[], u);
                    }
                    if n <= 8 {
                        let src_ids: Vec<u64> = (0..n).map(|_| ctx.fresh()).collect();
                        let src: Vec<E> = src_ids.iter().map(|i| E::make(*i)).collect();
                        set_oracle(&[], &[]);
                        let r = $v.try_append(src);
                        let u = used();
                        clear_oracle();
                        judge_failed(ctx, kind, state, "try_append(owned n)", Some(opline("append", format!(" src={}", csv(&src_ids)), &[], pre.cap)), r.is_err(), "Err", &pre, &now!(), &src_ids, u);
                    }
                    if $has_exact {
                        set_oracle(&[], &[]);
                        let r = failing_reserve_exact!($v, n);
                        let u = used();
                        clear_oracle();
                        judge_failed(ctx, kind, state, "try_reserve_exact(n)", Some(opline("reserve_exact", format!(" {n}"), &[], pre.cap)), r, "Err", &pre, &now!(), &[], u);
                    }
                    // ---- the panicking twins on a request whose capacity computation overflows: must unwind
                    let huge = isize::MAX as usize;
                    {
                        set_oracle(&[], &[]);
                        let r = catch_unwind(AssertUnwindSafe(|| $v.reserve(huge)));
                        let u = used();
                        clear_oracle();
                        judge_failed(ctx, kind, state, "reserve(isize::MAX)", None, r.is_err(), "an unwinding panic", &pre, &now!(), &[], u);
                    }
                    {
                        let id = ctx.fresh();
                        let o: Vec<Oc> = (0..4).map(|_| Oc::Ret(ctx.fresh())).collect();
                        set_oracle(&o, &[]);
                        let r = catch_unwind(AssertUnwindSafe(|| $v.resize(huge, E::make(id))));
                        let u = used();
                        clear_oracle();
                        judge_failed(ctx, kind, state, "resize(isize::MAX, x)", None, r.is_err(), "an unwinding panic", &pre, &now!(), &[id], u);
                    }
                    {
                        let o: Vec<Oc> = (0..4).map(|_| Oc::Ret(ctx.fresh())).collect();
                        set_oracle(&o, &[]);
                        let r = catch_unwind(AssertUnwindSafe(|| $v.resize_with(huge, E::gen_cb)));
                        let u = used();
                        clear_oracle();
                        judge_failed(ctx, kind, state, "resize_with(isize::MAX, f)", None, r.is_err(), "an unwinding panic", &pre, &now!(), &[], u);
                    }
                    if !roomy || room == 0 {
                        // the panicking twin on a FULL `FixedBumpVec` panics too (nothing can be allocated for the
                        // others without the process aborting, so only the fixed one is asked)
                        if kind == FKind::Fixed {
                            let id = ctx.fresh();
                            set_oracle(&[], &[]);
                            let r = catch_unwind(AssertUnwindSafe(|| $v.push(E::make(id))));
                            let u = used();
                            clear_oracle();
                            judge_failed(ctx, kind, state, "push(x) on a full FixedBumpVec", None, r.is_err(), "an unwinding panic", &pre, &now!(), &[id], u);
                        }
                    }
                    // ---- the vector is still usable: pop, (push if there is room), drop — every value exactly once
                    let _ = take_log();
                    let _ = take_created();
                    let mut expect = $ids.clone();
                    if let Some(e) = $v.pop() {
                        let want = failing_pop_expect!($v, expect);
                        if e.ident() != want {
                            ctx.oracle("C07", format!("{} ({state}): pop after the failed calls returned {} instead of {want}", kind.tok(), e.ident()));
                        }
                        e.stash();
                    }
                    if $v.len() < $v.capacity() {
                        let id = ctx.fresh();
                        if $v.try_push(E::make(id)).is_err() {
                            ctx.oracle("C07", format!("{} ({state}): try_push into spare capacity failed after the failed calls", kind.tok()));
                        } else {
                            failing_push_expect!($v, expect, id);
                        }
                    }
                    let got: Vec<u64> = $v.as_slice().iter().map(|e| e.ident()).collect();
                    if got != expect {
                        ctx.oracle("C07", format!("{} ({state}): after pop/push the vector holds {} (expected {})", kind.tok(), csv(&got), csv(&expect)));
                    }
                    let _ = take_log();
                    drop($v);
                    let d = take_log();
                    let mut ds = d.clone();
                    ds.sort_unstable();
                    let mut es = expect.clone();
                    es.sort_unstable();
                    if ds != es {
                        ctx.oracle("C07", format!("{} ({state}): dropping the vector ran the destructors of {} (it held {})", kind.tok(), csv(&d), csv(&expect)));
                    }
                }};
            }
            match kind {
                FKind::Fixed => {
                    let mut v: FixedBumpVec<E> = match FixedBumpVec::try_with_capacity_in(len + spare, &bump) {
                        Ok(v) => v,
                        Err(_) => return,
                    };
                    for i in &ids {
                        v.push(E::make(*i));
                    }
                    BASE.with(|b| {
                        let mut b = b.borrow_mut();
                        let k = b.alloc_calls;
                        b.fail_all_from = Some(k);
                    });
                    macro_rules! failing_reserve_exact { ($w:ident, $n:expr) => { true }; }
                    macro_rules! failing_pop_expect { ($w:ident, $e:ident) => { $e.pop().unwrap_or(u64::MAX) }; }
                    macro_rules! failing_push_expect { ($w:ident, $e:ident, $id:expr) => { $e.push($id) }; }
                    body!(v, ids, false, true);
                }
                FKind::Bump => {
                    let mut v: BumpVec<E, &Bump<A0, $S>> = match BumpVec::try_with_capacity_in(len + spare, &bump) {
                        Ok(v) => v,
                        Err(_) => return,
                    };
                    for i in &ids {
                        v.push(E::make(*i));
                    }
                    BASE.with(|b| {
                        let mut b = b.borrow_mut();
                        let k = b.alloc_calls;
                        b.fail_all_from = Some(k);
                    });
                    if !roomy {
                        // use up the rest of the chunk: the vector cannot grow in place and a new chunk is refused
                        let mut guard = 0;
                        while bump.try_alloc(0xEEu8).is_ok() && guard < 100_000 {
                            guard += 1;
                        }
                    }
                    macro_rules! failing_reserve_exact { ($w:ident, $n:expr) => { $w.try_reserve_exact($n).is_err() }; }
                    macro_rules! failing_pop_expect { ($w:ident, $e:ident) => { $e.pop().unwrap_or(u64::MAX) }; }
                    macro_rules! failing_push_expect { ($w:ident, $e:ident, $id:expr) => { $e.push($id) }; }
                    body!(v, ids, true, true);
                }
                FKind::Mut => {
                    let mut v: MutBumpVec<E, &mut Bump<A0, $S>> = match MutBumpVec::try_with_capacity_in((len + spare).max(1), &mut bump) {
                        Ok(v) => v,
                        Err(_) => return,
                    };
                    BASE.with(|b| {
                        let mut b = b.borrow_mut();
                        let k = b.alloc_calls;
                        b.fail_all_from = Some(k);
                    });
                    let mut ids = ids.clone();
                    for i in ids.clone().iter() {
                        v.push(E::make(*i));
                    }
                    if !roomy {
                        // the vector owns the rest of the chunk: fill all of it
                        while v.len() < v.capacity() {
                            let id = ctx.fresh();
                            v.push(E::make(id));
                            ids.push(id);
                        }
                    }
                    macro_rules! failing_reserve_exact { ($w:ident, $n:expr) => { $w.try_reserve_exact($n).is_err() }; }
                    macro_rules! failing_pop_expect { ($w:ident, $e:ident) => { $e.pop().unwrap_or(u64::MAX) }; }
                    macro_rules! failing_push_expect { ($w:ident, $e:ident, $id:expr) => { $e.push($id) }; }
                    body!(v, ids, true, true);
                }
                FKind::Rev => {
                    let mut v: MutBumpVecRev<E, &mut Bump<A0, $S>> = match MutBumpVecRev::try_with_capacity_in((len + spare).max(1), &mut bump) {
                        Ok(v) => v,
                        Err(_) => return,
                    };
                    BASE.with(|b| {
                        let mut b = b.borrow_mut();
                        let k = b.alloc_calls;
                        b.fail_all_from = Some(k);
                    });
                    // pushes go to the front
                    let mut ids = ids.clone();
                    for i in ids.clone().iter().rev() {
                        v.push(E::make(*i));
                    }
                    if !roomy {
                        while v.len() < v.capacity() {
                            let id = ctx.fresh();
                            v.push(E::make(id));
                            ids.insert(0, id);
                        }
                    }
                    macro_rules! failing_reserve_exact { ($w:ident, $n:expr) => { $w.try_reserve_exact($n).is_err() }; }
                    // `pop` / `push` work on the front
                    macro_rules! failing_pop_expect { ($w:ident, $e:ident) => { $e.remove(0) }; }
                    macro_rules! failing_push_expect { ($w:ident, $e:ident, $id:expr) => { $e.insert(0, $id) }; }
                    body!(v, ids, true, false);
                }
            }
            // the arena itself: nothing written outside the blocks that were granted
            drop(bump);
            let errs: Vec<String> = BASE.with(|b| {
                let mut b = b.borrow_mut();
                b.final_audit(true);
                b.errors.clone()
            });
            for e in errs.iter().take(3) {
                ctx.oracle("C07", format!("{} ({state}) base allocator audit: {e}", kind.tok()));
            }
            clear_stash();
            let _ = take_log();
            let _ = take_created();
            print!("{}", ctx.out);
            ctx.out.clear();
        }
    };
}

failing_case!(failing_up, FUp);
failing_case!(failing_down, FDown);

/// `BumpVec::splice` with a source that lies about its length so that a reservation in the middle of
/// `Splice::drop` panics with "capacity overflow" (and the harmless over-reports next to it): every range of
/// every small vector, sources that fill the range and go beyond it.  Runs through the ordinary step machinery:
/// replay on the model, C06 accounting, std comparison, and the C07 check of the contents after the unwind.
fn failing_splice(ctx: &mut Ctx) {
    let pick = (seed() % 4) as u8;
    for settings in [pick, pick ^ 1] {
        for len in 1..=5usize {
            for cap in [len, len + 3] {
                for s in 0..=len {
                    for e in s..=len {
                        let gap = e - s;
                        let mut ns = vec![gap, gap + 1, gap + 3];
                        if gap > 0 {
                            ns.push(gap - 1);
                        }
                        for n in ns {
                            for lie in [isize::MAX as usize, 1usize << 62, n + 2] {
                                ctx.next_id = 1;
                                let ids: Vec<u64> = (0..len).map(|_| ctx.fresh()).collect();
                                let src: Vec<u64> = (0..n).map(|_| ctx.fresh()).collect();
                                let pulls: Vec<u8> = if gap > 0 && ctx.rng.chance(1, 4) { vec![if ctx.rng.chance(1, 2) { b'f' } else { b'b' }] } else { vec![] };
                                ctx.count(if lie >= 1usize << 62 {
                                    if e == len { "failing-splice:overflow in extend/reserve" } else if n >= gap { "failing-splice:overflow in move_tail (tail must survive)" } else { "failing-splice:huge hint, source dry inside the range" }
                                } else {
                                    "failing-splice:harmless over-report"
                                });
                                let spec = Spec {
                                    kind: Kind::Bump,
                                    zst: false,
                                    settings,
                                    ids,
                                    cap,
                                    script: Some(vec![Step { op: Op::Splice(s, e, src, pulls, 1_000_000, Some(lie)), oracle: vec![], bombs: vec![] }]),
                                    nops: 0,
                                    label: "failing-splice",
                                };
                                ctx.trace_no += 1;
                                run_spec(ctx, &spec);
                                print!("{}", ctx.out);
                                ctx.out.clear();
                            }
                        }
                    }
                }
            }
        }
    }
}

// ---------------------------------------------------------------------------------------------------------
// "capacity overflow": requests whose element count has no layout (`len + additional > isize::MAX / size_of::<T>()`,
// incl. sums that overflow `usize` and byte sizes that overflow `usize` although the element count does not) for
// every element size in use (1, 2, 4, 8, 16), on vectors with and without an existing buffer.  `try_*` must
// return `Err` (never panic, never `Ok`) and leave the vector alone; the panicking twins must unwind with
// "capacity overflow".  Requests that are huge but DO have a layout only go to the `try_*` twins (the panicking
// ones would abort the process when the allocator refuses): they must return `Err` as well.

pub trait Num: Copy + PartialEq + std::fmt::Debug + 'static {
    fn of(i: u64) -> Self;
    fn val(self) -> u64;
}
impl Num for u8 {
    fn of(i: u64) -> u8 { i as u8 }
    fn val(self) -> u64 { self as u64 }
}
impl Num for u16 {
    fn of(i: u64) -> u16 { i as u16 }
    fn val(self) -> u64 { self as u64 }
}
impl Num for u32 {
    fn of(i: u64) -> u32 { i as u32 }
    fn val(self) -> u64 { self as u64 }
}
impl Num for u64 {
    fn of(i: u64) -> u64 { i }
    fn val(self) -> u64 { self }
}
impl Num for [u64; 2] {
    fn of(i: u64) -> [u64; 2] { [i, !i] }
    fn val(self) -> u64 { if self[1] == !self[0] { self[0] } else { u64::MAX } }
}

fn overflow_args(size: usize, len: usize) -> Vec<usize> {
    let um = usize::MAX;
    let im = isize::MAX as usize;
    let mut v = vec![
        um, um - 1, um - len, um - len - 1,
        um / 2, um / 2 + 1, um / 2 - 1, um / 2 + 2,
        im, im - 1, im + 1, im - len, im - len + 1,
        um / size, (um / size).saturating_add(1), um / size - 1, (um / size).saturating_sub(len), (um / size).saturating_sub(len).saturating_add(1),
        im / size, im / size + 1, im / size - 1, (im / size).saturating_sub(len), (im / size).saturating_sub(len) + 1,
        (im / size).saturating_sub(len).saturating_sub(1),
        um / (2 * size) + 1, um / 3, um / 5 * 4,
        1usize << 40, 1usize << 34,
    ];
    v.retain(|n| *n >= 1usize << 34);
    v.sort_unstable();
    v.dedup();
    v
}

fn panic_text(p: &Box<dyn std::any::Any + Send>) -> String {
    if let Some(s) = p.downcast_ref::<&str>() {
        s.to_string()
    } else if let Some(s) = p.downcast_ref::<String>() {
        s.clone()
    } else {
        "<non-string payload>".to_string()
    }
}

macro_rules! overflow_body {
    ($ctx:ident, $v:ident, $T:ty, $kind:expr, $has_exact:expr) => {{
        let size = std::mem::size_of::<$T>();
        let max_cap = isize::MAX as usize / size;
        let kind: FKind = $kind;
        let snapshot = |v: &[$T]| -> Vec<u64> { v.iter().map(|x| x.val()).collect() };
        let pre_ids = snapshot($v.as_slice());
        let (pre_len, pre_cap, pre_ptr) = ($v.len(), $v.capacity(), $v.as_ptr() as usize);
        let _ = writeln!($ctx.out, "# trace {} failing-overflow kind={} size={size} len={pre_len} cap={pre_cap}", $ctx.trace_no, kind.tok());
        $ctx.trace_no += 1;
        let _ = writeln!($ctx.out, "new f {} cap={pre_cap} ids={} addr={pre_ptr}", kind.model_kind_overflow(), csv(&pre_ids));
        let mut dead = false;
        for n in overflow_args(size, pre_len) {
            if dead {
                break;
            }
            let overflow = pre_len.checked_add(n).map_or(true, |t| t > max_cap);
            let new_len = pre_len.saturating_add(n);
            $ctx.count(if overflow { "overflow:no layout for len + additional" } else { "overflow:huge request with a layout (try_ only)" });
            // (name, model line, outcome)
            let mut results: Vec<(&str, Option<String>, Result<bool, String>)> = Vec::new();
            let line = |name: &str, arg: usize| -> Option<String> {
                if overflow { Some(format!("op {name} f {arg} via=try o=- bombs=- capin={pre_cap} maxcap={max_cap}")) } else { None }
            };
            results.push(("try_reserve", line("reserve", n), catch_unwind(AssertUnwindSafe(|| $v.try_reserve(n).is_err())).map_err(|p| panic_text(&p))));
            if $has_exact {
                results.push(("try_reserve_exact", line("reserve_exact", n), catch_unwind(AssertUnwindSafe(|| overflow_reserve_exact!($v, n))).map_err(|p| panic_text(&p))));
            }
            results.push(("try_resize", None, catch_unwind(AssertUnwindSafe(|| $v.try_resize(new_len, <$T>::of(77)).is_err())).map_err(|p| panic_text(&p))));
            results.push(("try_resize_with", line("resize_with", new_len), catch_unwind(AssertUnwindSafe(|| $v.try_resize_with(new_len, || <$T>::of(78)).is_err())).map_err(|p| panic_text(&p))));
            for (name, l, r) in results {
                $ctx.oracle_checks += 1;
                *$ctx.op_hist.entry(format!("overflow:{name}")).or_insert(0) += 1;
                let what = format!("{}<{}-byte elements> (len={pre_len} cap={pre_cap}) `{name}` with additional={n}", kind.tok(), size);
                let failed = match &r {
                    Ok(true) => true,
                    Ok(false) => {
                        $ctx.oracle("C07", format!("{what}: returned Ok — {} elements cannot be had ({})", new_len, if overflow { "the capacity computation overflows" } else { "the allocator has nothing like it" }));
                        dead = true;
                        false
                    }
                    Err(msg) => {
                        $ctx.oracle("C07", format!("{what}: a try_ method PANICKED (`{msg}`) instead of returning Err"));
                        false
                    }
                };
                let now = if dead { Vec::new() } else { snapshot($v.as_slice()) };
                if !dead && (now != pre_ids || $v.len() != pre_len || $v.capacity() != pre_cap || $v.as_ptr() as usize != pre_ptr) {
                    $ctx.oracle("C07", format!("{what}: the failed call changed the vector: {} len {} cap {} -> {} len {} cap {}", csv(&pre_ids), pre_len, pre_cap, csv(&now), $v.len(), $v.capacity()));
                    dead = true;
                }
                if let (Some(l), false) = (l, dead) {
                    let _ = writeln!($ctx.out, "{l} => ids={} len={} cap={} drops=- esc=- exit={} used=0", csv(&now), $v.len(), $v.capacity(), if failed { "panic" } else { "ret" });
                }
                if dead {
                    break;
                }
            }
            // the panicking twins: only where no allocator is asked
            if overflow && !dead {
                let mut twins: Vec<(&str, Result<(), String>)> = Vec::new();
                twins.push(("reserve", catch_unwind(AssertUnwindSafe(|| $v.reserve(n))).map_err(|p| panic_text(&p))));
                twins.push(("resize", catch_unwind(AssertUnwindSafe(|| $v.resize(new_len, <$T>::of(79)))).map_err(|p| panic_text(&p))));
                twins.push(("resize_with", catch_unwind(AssertUnwindSafe(|| $v.resize_with(new_len, || <$T>::of(80)))).map_err(|p| panic_text(&p))));
                for (name, r) in twins {
                    $ctx.oracle_checks += 1;
                    *$ctx.op_hist.entry(format!("overflow:{name} (panicking)")).or_insert(0) += 1;
                    let what = format!("{}<{}-byte elements> (len={pre_len} cap={pre_cap}) `{name}` with additional={n}", kind.tok(), size);
                    match r {
                        Ok(()) => {
                            $ctx.oracle("C07", format!("{what}: returned normally although the capacity computation overflows"));
                            dead = true;
                        }
                        Err(msg) => {
                            if kind != FKind::Fixed && !msg.contains("capacity overflow") {
                                $ctx.oracle("C07", format!("{what}: panicked with `{msg}` instead of \"capacity overflow\""));
                            }
                        }
                    }
                    if !dead && (snapshot($v.as_slice()) != pre_ids || $v.len() != pre_len || $v.capacity() != pre_cap || $v.as_ptr() as usize != pre_ptr) {
                        $ctx.oracle("C07", format!("{what}: the failed call changed the vector"));
                        dead = true;
                    }
                    if dead {
                        break;
                    }
                }
            }
        }
        if dead {
            // the vector claims memory it does not have: do not touch it any more
            std::mem::forget($v);
        }
        print!("{}", $ctx.out);
        $ctx.out.clear();
    }};
}

impl FKind {
    /// for the overflow cases the real kind is announced (the refusal comes from the capacity computation, which
    /// the model has for every kind); `MutBumpVec(Rev)` with `capin` = what it has
    fn model_kind_overflow(self) -> &'static str {
        match self {
            FKind::Fixed => "fixed",
            FKind::Bump => "bump",
            FKind::Mut => "mut",
            FKind::Rev => "rev",
        }
    }
}

macro_rules! overflow_case {
    ($fname:ident, $S:ty) => {
        fn $fname<T: Num>(ctx: &mut Ctx, kind: FKind, len: usize, cap: usize) {
            BASE.with(|b| b.borrow_mut().reset(seed() ^ (len as u64 * 131 + cap as u64)));
            let mut bump: Bump<A0, $S> = match Bump::try_with_size_in(512, A0::default()) {
                Ok(b) => b,
                Err(_) => return,
            };
            match kind {
                FKind::Fixed => {
                    let mut v: FixedBumpVec<T> = match FixedBumpVec::try_with_capacity_in(cap, &bump) {
                        Ok(v) => v,
                        Err(_) => return,
                    };
                    for i in 0..len {
                        v.push(T::of(1 + i as u64));
                    }
                    macro_rules! overflow_reserve_exact { ($w:ident, $n:expr) => { true }; }
                    overflow_body!(ctx, v, T, FKind::Fixed, false);
                }
                FKind::Bump => {
                    let mut v: BumpVec<T, &Bump<A0, $S>> = match BumpVec::try_with_capacity_in(cap, &bump) {
                        Ok(v) => v,
                        Err(_) => return,
                    };
                    for i in 0..len {
                        v.push(T::of(1 + i as u64));
                    }
                    macro_rules! overflow_reserve_exact { ($w:ident, $n:expr) => { $w.try_reserve_exact($n).is_err() }; }
                    overflow_body!(ctx, v, T, FKind::Bump, true);
                }
                FKind::Mut => {
                    let mut v: MutBumpVec<T, &mut Bump<A0, $S>> = if cap == 0 {
                        MutBumpVec::new_in(&mut bump)
                    } else {
                        match MutBumpVec::try_with_capacity_in(cap, &mut bump) {
                            Ok(v) => v,
                            Err(_) => return,
                        }
                    };
                    for i in 0..len {
                        v.push(T::of(1 + i as u64));
                    }
                    macro_rules! overflow_reserve_exact { ($w:ident, $n:expr) => { $w.try_reserve_exact($n).is_err() }; }
                    overflow_body!(ctx, v, T, FKind::Mut, true);
                }
                FKind::Rev => {
                    let mut v: MutBumpVecRev<T, &mut Bump<A0, $S>> = if cap == 0 {
                        MutBumpVecRev::new_in(&mut bump)
                    } else {
                        match MutBumpVecRev::try_with_capacity_in(cap, &mut bump) {
                            Ok(v) => v,
                            Err(_) => return,
                        }
                    };
                    for i in (0..len).rev() {
                        v.push(T::of(1 + i as u64));
                    }
                    macro_rules! overflow_reserve_exact { ($w:ident, $n:expr) => { $w.try_reserve_exact($n).is_err() }; }
                    overflow_body!(ctx, v, T, FKind::Rev, true);
                }
            }
        }
    };
}
overflow_case!(overflow_up, FUp);
overflow_case!(overflow_down, FDown);

fn failing_overflow(ctx: &mut Ctx) {
    for kind in [FKind::Bump, FKind::Mut, FKind::Rev, FKind::Fixed] {
        for (len, cap) in [(0usize, 0usize), (3, 4), (4, 4), (1, 9)] {
            macro_rules! all_sizes {
                ($f:ident) => {
                    $f::<u8>(ctx, kind, len, cap);
                    $f::<u16>(ctx, kind, len, cap);
                    $f::<u32>(ctx, kind, len, cap);
                    $f::<u64>(ctx, kind, len, cap);
                    $f::<[u64; 2]>(ctx, kind, len, cap);
                };
            }
            if ctx.rng.chance(1, 2) {
                all_sizes!(overflow_up);
            } else {
                all_sizes!(overflow_down);
            }
        }
    }
}

/// zero-sized elements: the capacity is `usize::MAX` and cannot grow — `generic_grow_amortized` / `_exact` have a
/// branch of their own for that (`Err(capacity_overflow)`), reached by `reserve(usize::MAX)` on a non-empty vector;
/// and the `into_slice_ptr` branch of the exclusive-borrow vectors (`into_boxed_slice`).  By counts.
fn failing_zst(ctx: &mut Ctx) {
    macro_rules! zst_case {
        ($name:literal, $make:expr) => {{
            for len in 1..=3usize {
                zreset();
                let mut bump: Bump<Global, S1U> = Bump::new();
                let _ = &mut bump;
                {
                    let mut v = $make(&mut bump);
                    for _ in 0..len {
                        v.push(Z::make(0));
                    }
                    ctx.oracle_checks += 1;
                    *ctx.op_hist.entry(format!("zst-overflow:{}", $name)).or_insert(0) += 1;
                    let e1 = v.try_reserve(usize::MAX).is_err();
                    let e2 = v.try_reserve_exact(usize::MAX).is_err();
                    let p1 = catch_unwind(AssertUnwindSafe(|| v.reserve(usize::MAX))).map_err(|p| panic_text(&p));
                    let p2 = catch_unwind(AssertUnwindSafe(|| v.reserve_exact(usize::MAX))).map_err(|p| panic_text(&p));
                    let ok_msg = |r: &Result<(), String>| matches!(r, Err(m) if m.contains("capacity overflow"));
                    let (c, d, _) = zcounts();
                    if !e1 || !e2 || !ok_msg(&p1) || !ok_msg(&p2) || v.len() != len || v.capacity() != usize::MAX || c != len as u64 || d != 0 {
                        ctx.oracle("C07", format!("{}<zero-sized> len={len}: reserve(usize::MAX): try_reserve Err={e1} try_reserve_exact Err={e2} reserve -> {:?} reserve_exact -> {:?}; len {} cap {}; {c} made {d} dropped", $name, p1, p2, v.len(), v.capacity()));
                    }
                    let b = v.into_boxed_slice();
                    if b.len() != len {
                        ctx.oracle("C08", format!("{}<zero-sized> len={len}: into_boxed_slice has {} elements", $name, b.len()));
                    }
                    drop(b);
                }
                let (c, d, st) = zcounts();
                if c != d + st || d != len as u64 {
                    ctx.oracle("C06", format!("{}<zero-sized> len={len}: after reserve(usize::MAX) attempts and into_boxed_slice: {c} made, {d} destructor calls", $name));
                }
            }
        }};
    }
    fn mk_bump<'a>(b: &'a mut Bump<Global, S1U>) -> BumpVec<Z, &'a Bump<Global, S1U>> {
        BumpVec::new_in(&*b)
    }
    fn mk_mut<'a>(b: &'a mut Bump<Global, S1U>) -> MutBumpVec<Z, &'a mut Bump<Global, S1U>> {
        MutBumpVec::new_in(b)
    }
    fn mk_rev<'a>(b: &'a mut Bump<Global, S1U>) -> MutBumpVecRev<Z, &'a mut Bump<Global, S1U>> {
        MutBumpVecRev::new_in(b)
    }
    zst_case!("BumpVec", mk_bump);
    zst_case!("MutBumpVec", mk_mut);
    zst_case!("MutBumpVecRev", mk_rev);
}

pub fn run_failing_profile(ctx: &mut Ctx, budget: usize) {
    failing_zst(ctx);
    failing_overflow(ctx);
    failing_splice(ctx);
    let rounds = budget.max(1);
    for round in 0..rounds {
        for kind in [FKind::Fixed, FKind::Bump, FKind::Mut, FKind::Rev] {
            for len in 0..=6usize {
                for roomy in [false, true] {
                    let _ = round;
                    if ctx.rng.chance(1, 2) {
                        failing_up(ctx, kind, len, roomy);
                    } else {
                        failing_down(ctx, kind, len, roomy);
                    }
                }
            }
        }
    }
    BASE.with(|b| b.borrow_mut().reset(1));
}
