//! Test base allocators for the harness.
//!
//! All of them hand out blocks carved from one region obtained once from the system allocator,
//! record every call, put guard bytes around each block, can fail at chosen call indices, can
//! grant more than requested, fill fresh memory with garbage (so "zeroed" has to be earned) and
//! poison released memory (so a write after release is detected at the end).
//!
//! Three value layouts (they change `Layout::new::<ChunkHeader<A>>()`):
//!   `A0`  zero-sized                       → header 32 bytes, align 16
//!   `A8`  8 bytes, align 8                 → header 48 bytes, align 16
//!   `A64` 8 bytes payload, align 64        → header 128 bytes, align 64
//!   `A256` 256 bytes, align 8             → header 288 bytes, align 16 (the header takes more than half of a minimum chunk)

use std::alloc::Layout;
use std::cell::RefCell;
use std::collections::BTreeMap;
use std::ptr::NonNull;

use bump_scope::alloc::{AllocError, Allocator};

pub const GUARD: usize = 64;
pub const GUARD_BYTE: u8 = 0xFD;
pub const FRESH_BYTE: u8 = 0xCD;
pub const FREED_BYTE: u8 = 0xDD;
const REGION: usize = 1 << 28;

#[derive(Clone, Debug)]
pub enum Ev {
    Alloc { size: usize, align: usize, result: Option<(usize, usize)> },
    Dealloc { ptr: usize, size: usize, align: usize },
}

#[derive(Clone, Debug)]
pub struct Grant {
    pub req_size: usize,
    pub req_align: usize,
    pub granted: usize,
    pub released: bool,
}

pub struct BaseState {
    region: *mut u8,
    next: usize,
    pub log: Vec<Ev>,
    pub grants: BTreeMap<usize, Grant>,
    pub alloc_calls: usize,
    pub fail_at: Vec<usize>,
    pub fail_all_from: Option<usize>,
    pub overgrant: u8, // 0 exact, 1 small random extra, 2 up to 2x, 3 odd sizes
    pub rng_state: u64,
    pub errors: Vec<String>,
    pub total_alloc_calls: u64,
    pub total_failures: u64,
}

thread_local! {
    pub static BASE: RefCell<BaseState> = RefCell::new(BaseState::new());
}

impl BaseState {
    fn new() -> Self {
        let layout = Layout::from_size_align(REGION, 1 << 16).unwrap();
        let region = unsafe { std::alloc::alloc(layout) };
        assert!(!region.is_null());
        BaseState {
            region,
            next: 0,
            log: Vec::new(),
            grants: BTreeMap::new(),
            alloc_calls: 0,
            fail_at: Vec::new(),
            fail_all_from: None,
            overgrant: 0,
            rng_state: 1,
            errors: Vec::new(),
            total_alloc_calls: 0,
            total_failures: 0,
        }
    }

    /// start a new trace: forget all blocks, start carving at a pseudo-random offset
    pub fn reset(&mut self, seed: u64) {
        self.rng_state = seed | 1;
        self.next = ((self.rnd() % 4096) as usize) * 64;
        self.log.clear();
        self.grants.clear();
        self.alloc_calls = 0;
        self.fail_at.clear();
        self.fail_all_from = None;
        self.errors.clear();
    }

    fn rnd(&mut self) -> u64 {
        let mut x = self.rng_state;
        x ^= x >> 12;
        x ^= x << 25;
        x ^= x >> 27;
        self.rng_state = x;
        x.wrapping_mul(0x2545_F491_4F6C_DD1D)
    }

    fn alloc(&mut self, layout: Layout) -> Result<NonNull<[u8]>, AllocError> {
        let idx = self.alloc_calls;
        self.alloc_calls += 1;
        self.total_alloc_calls += 1;
        let fail = self.fail_at.contains(&idx) || self.fail_all_from.is_some_and(|f| idx >= f);
        let extra = match self.overgrant {
            0 => 0,
            1 => (self.rnd() % 48) as usize,
            2 => (self.rnd() as usize) % (layout.size() + 1),
            _ => 1 + 2 * ((self.rnd() % 40) as usize),
        };
        let granted = layout.size() + extra;
        let base = self.region as usize;
        let align = layout.align().max(1);
        let start = (base + self.next + GUARD + align - 1) / align * align;
        let end = start + granted + GUARD;
        if fail || end - base > REGION {
            // an exhausted region is an ordinary allocation failure (the base allocator may always refuse)
            self.total_failures += 1;
            self.log.push(Ev::Alloc { size: layout.size(), align: layout.align(), result: None });
            return Err(AllocError);
        }
        self.next = end - base;
        unsafe {
            std::ptr::write_bytes((start - GUARD) as *mut u8, GUARD_BYTE, GUARD);
            std::ptr::write_bytes(start as *mut u8, FRESH_BYTE, granted);
            std::ptr::write_bytes((start + granted) as *mut u8, GUARD_BYTE, GUARD);
        }
        self.grants.insert(start, Grant { req_size: layout.size(), req_align: layout.align(), granted, released: false });
        self.log.push(Ev::Alloc { size: layout.size(), align: layout.align(), result: Some((start, granted)) });
        let ptr = NonNull::new(start as *mut u8).unwrap();
        Ok(NonNull::slice_from_raw_parts(ptr, granted))
    }

    fn check_guards(&mut self, start: usize, granted: usize, when: &str) {
        unsafe {
            let before = std::slice::from_raw_parts((start - GUARD) as *const u8, GUARD);
            let after = std::slice::from_raw_parts((start + granted) as *const u8, GUARD);
            if before.iter().any(|&b| b != GUARD_BYTE) {
                self.errors.push(format!("C05 guard bytes BEFORE block {start:#x} (granted {granted}) overwritten, seen {when}"));
            }
            if after.iter().any(|&b| b != GUARD_BYTE) {
                self.errors.push(format!("C05 guard bytes AFTER block {start:#x} (granted {granted}) overwritten, seen {when}"));
            }
        }
    }

    fn dealloc(&mut self, ptr: NonNull<u8>, layout: Layout) {
        let p = ptr.as_ptr() as usize;
        self.log.push(Ev::Dealloc { ptr: p, size: layout.size(), align: layout.align() });
        match self.grants.get(&p).cloned() {
            None => self.errors.push(format!("C05 release of {p:#x} which was never granted")),
            Some(g) if g.released => self.errors.push(format!("C05 block {p:#x} released twice")),
            Some(g) => {
                if layout.align() != g.req_align {
                    self.errors.push(format!("C05 block {p:#x} released with align {} but requested with {}", layout.align(), g.req_align));
                }
                if layout.size() < g.req_size || layout.size() > g.granted {
                    self.errors.push(format!(
                        "C05 block {p:#x} released with size {} outside [requested {}, granted {}]",
                        layout.size(),
                        g.req_size,
                        g.granted
                    ));
                }
                self.check_guards(p, g.granted, "at release");
                unsafe { std::ptr::write_bytes(p as *mut u8, FREED_BYTE, g.granted) };
                self.grants.get_mut(&p).unwrap().released = true;
            }
        }
    }

    /// end-of-trace audit: guards of every block, released blocks untouched, nothing outstanding
    pub fn final_audit(&mut self, expect_all_released: bool) {
        let grants: Vec<(usize, Grant)> = self.grants.iter().map(|(k, v)| (*k, v.clone())).collect();
        for (p, g) in grants {
            self.check_guards(p, g.granted, "at end of trace");
            if g.released {
                let bytes = unsafe { std::slice::from_raw_parts(p as *const u8, g.granted) };
                if bytes.iter().any(|&b| b != FREED_BYTE) {
                    self.errors.push(format!("C05 block {p:#x} was written after it had been released"));
                }
            } else if expect_all_released {
                self.errors.push(format!("C05 block {p:#x} (requested {}) was never released", g.req_size));
            }
        }
    }

    pub fn outstanding(&self) -> usize {
        self.grants.values().filter(|g| !g.released).count()
    }

    pub fn drain_log(&mut self) -> Vec<Ev> {
        std::mem::take(&mut self.log)
    }
}

pub trait TestBase: Allocator + Clone + Default + 'static {
    const NAME: &'static str;
}

macro_rules! base_type {
    ($name:ident, $lit:literal, $($def:tt)*) => {
        $($def)*

        unsafe impl Allocator for $name {
            fn allocate(&self, layout: Layout) -> Result<NonNull<[u8]>, AllocError> {
                BASE.with(|b| b.borrow_mut().alloc(layout))
            }
            unsafe fn deallocate(&self, ptr: NonNull<u8>, layout: Layout) {
                BASE.with(|b| b.borrow_mut().dealloc(ptr, layout))
            }
        }

        impl TestBase for $name {
            const NAME: &'static str = $lit;
        }
    };
}

base_type!(A0, "A0", #[derive(Clone, Default)] pub struct A0;);
base_type!(A8, "A8", #[derive(Clone, Default)] pub struct A8(pub u64););
base_type!(A64, "A64", #[derive(Clone, Default)] #[repr(align(64))] pub struct A64(pub u64););
base_type!(A256, "A256", #[derive(Clone)] pub struct A256(pub [u64; 32]););

impl Default for A256 {
    fn default() -> Self {
        A256([0; 32])
    }
}
