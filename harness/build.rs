//! Extracts the private align helpers of /repo/src/lib.rs (they cannot be included by path,
//! lib.rs being the crate root) into OUT_DIR/lib_helpers.rs so that `purefn` runs the real text.
use std::{env, fs, path::Path};

fn extract_fn(src: &str, name: &str) -> String {
    let pat = format!("fn {name}(");
    let start = src.find(&pat).unwrap_or_else(|| panic!("fn {name} not found in lib.rs"));
    // include a preceding `const ` qualifier if any
    let line_start = src[..start].rfind('\n').map_or(0, |i| i + 1);
    let open = start + src[start..].find('{').unwrap();
    let mut depth = 0usize;
    let mut end = open;
    for (i, c) in src[open..].char_indices() {
        match c {
            '{' => depth += 1,
            '}' => {
                depth -= 1;
                if depth == 0 {
                    end = open + i + 1;
                    break;
                }
            }
            _ => {}
        }
    }
    src[line_start..end].to_string()
}

fn main() {
    // the crate under verification is reached through the symlink `harness/repo` (-> /repo)
    let repo = format!("{}/repo", env::var("CARGO_MANIFEST_DIR").unwrap());
    let lib = format!("{repo}/src/lib.rs");
    println!("cargo:rerun-if-changed={lib}");
    let src = fs::read_to_string(&lib).unwrap();
    let mut out = String::from("// extracted verbatim from src/lib.rs by build.rs\nuse core::num::NonZeroUsize;\n");
    for name in ["up_align_usize_unchecked", "down_align_usize", "bump_down", "min_non_zero_cap", "align_pos"] {
        out.push_str("#[allow(dead_code)]\npub ");
        out.push_str(&extract_fn(&src, name));
        out.push_str("\n\n");
    }
    let dest = Path::new(&env::var("OUT_DIR").unwrap()).join("lib_helpers.rs");
    fs::write(dest, out).unwrap();
}
