#!/usr/bin/env python3
"""
sigs2lean.py <repo> <outdir> — signature / const-assert / auto-trait extractor for property C04.

Reads the public API surface of bump-scope that decides which lifetimes the compiler attaches to
allocations and handles, and writes `<outdir>/Sigs.lean` (Lean data, namespace `Gen.Sigs`):

  sigs            every allocation-/handle-producing method (and the epoch-ending ones) of
                  Bump, BumpScope (inherent + the `forward_methods!` expansion), BumpScopeGuard,
                  BumpClaimGuard (Deref/DerefMut), BumpPool, BumpPoolGuard (Deref/DerefMut), the scope
                  traits (BumpAllocator, BumpAllocatorScope, BumpAllocatorTypedScope,
                  MutBumpAllocatorTypedScope) and the `into_*` methods of the collections:
                  receiver mode, classification of the result type, the lifetimes attached to it
                  (normalised: `param` = the scope's allocation lifetime, `recv` = `'_`/elided = the
                  borrow of the receiver, `closure` = bound by the closure argument type (higher
                  ranked), `static`), and for the `scoped` family the lifetimes of the closure parameter
  scopeImpls      the `unsafe impl BumpAllocatorCoreScope<'a> for …` list (which types promise that
                  their allocations live for `'a`, and what `'a` is for them)
  settingsAsserts the relations asserted in the four `const { … }` blocks of raw_bump.rs
                  (`ensure_*satisfies_settings*`) + which conversion method calls which block
  valueConvs      every conversion between lifetime-carrying public types (Stats, Chunk, the chunk iterators, their
                  `Any*` forms, BumpBox, FixedBumpVec/-String, the guards, `&Bump` -> `&BumpScope`), found by scanning ALL
                  source files: `impl From<X> for Y`, associated functions `Y::f(X) -> Y`, the accessors of Stats / Chunk /
                  AnyStats / AnyChunk and of their iterators, `Iterator::Item`, `AsRef`/`AsMut`/`Borrow`/`BorrowMut`/`Deref`/
                  `DerefMut`, and `from_parts(X, allocator)` of the collections — with, for every lifetime position of the
                  output, its relation to the lifetimes the input names (`fromInput` / `fresh` = an elided `'_` in an impl
                  header or where no reference parameter can supply it / `static_` / `other`).  NB: `'_` on both sides of
                  an impl header are two independent lifetimes.
  autoImpls / structs   explicit `unsafe impl Send/Sync` of the handle types with their bounds and
                  the field types of the handle structs (input of the auto-trait derivation in Lean)

The scanner is hand-written for exactly the shapes that occur; anything unexpected is a hard error:
`TRANSLATE-ERROR <what>` on stderr and exit status 2 (never silently skipped).
"""
import os, re, sys

class TErr(Exception):
    pass

def die(msg):
    raise TErr(msg)

# ------------------------------------------------------------------------------------------------
# lexical helpers

def strip_comments(src):
    """remove // and /* */ comments (keeps newlines so that line numbers survive); string literals kept"""
    out = []
    i, n = 0, len(src)
    while i < n:
        c = src[i]
        if src.startswith("//", i):
            j = src.find("\n", i)
            i = n if j < 0 else j
            continue
        if src.startswith("/*", i):
            depth = 1; i += 2
            while i < n and depth:
                if src.startswith("/*", i): depth += 1; i += 2
                elif src.startswith("*/", i): depth -= 1; i += 2
                else:
                    if src[i] == "\n": out.append("\n")
                    i += 1
            continue
        if c == '"':
            j = i + 1
            while j < n and src[j] != '"':
                j += 2 if src[j] == "\\" else 1
            out.append(src[i:j + 1]); i = j + 1
            continue
        if c == "'" and i + 2 < n and src[i + 2] == "'" and src[i + 1] != "\\":
            out.append(src[i:i + 3]); i += 3       # char literal like 'x'
            continue
        if c == "'" and src.startswith("'\\", i):
            j = src.find("'", i + 2)
            out.append(src[i:j + 1]); i = j + 1
            continue
        out.append(c); i += 1
    return "".join(out)

OPEN = {"(": ")", "[": "]", "{": "}", "<": ">"}

def match_close(s, i):
    """s[i] is an opening bracket; return index of its partner. `<`/`>` are matched too, `->`/`=>` skipped."""
    o = s[i]; c = OPEN[o]
    depth = 0
    j = i
    n = len(s)
    while j < n:
        ch = s[j]
        if ch in "-=" and j + 1 < n and s[j + 1] == ">":
            j += 2; continue
        if o == "<":
            if ch in "([{":
                j = match_close(s, j) + 1; continue
            if ch == "<": depth += 1
            elif ch == ">":
                depth -= 1
                if depth == 0: return j
        else:
            if ch == '"':
                k = j + 1
                while s[k] != '"':
                    k += 2 if s[k] == "\\" else 1
                j = k + 1; continue
            if ch == o: depth += 1
            elif ch == c:
                depth -= 1
                if depth == 0: return j
        j += 1
    die(f"unbalanced {o!r}")

def split_top(s, sep=","):
    """split at top-level separators (outside all brackets)"""
    parts, depth, cur = [], 0, []
    i = 0
    while i < len(s):
        ch = s[i]
        if ch in "-=" and i + 1 < len(s) and s[i + 1] == ">":
            cur.append(s[i:i + 2]); i += 2; continue
        if ch in "([{<": depth += 1
        elif ch in ")]}>": depth -= 1
        if ch == sep and depth == 0:
            parts.append("".join(cur).strip()); cur = []
        else:
            cur.append(ch)
        i += 1
    last = "".join(cur).strip()
    if last: parts.append(last)
    return parts

def line_of(src, pos):
    return src.count("\n", 0, pos) + 1

WS = re.compile(r"\s+")
def norm(s):
    return WS.sub(" ", s).strip()

# ------------------------------------------------------------------------------------------------
# items: impl / trait blocks and the fns directly inside them

class Block:
    def __init__(self, kind, header, body, line, file):
        self.kind, self.header, self.body, self.line, self.file = kind, header, body, line, file

def top_blocks(src, file):
    """all `impl … {…}` and `trait … {…}` blocks at brace depth 0 (macro_rules bodies are skipped)"""
    res = []
    i, n, depth = 0, len(src), 0
    item = re.compile(r"\b(unsafe\s+impl|impl|pub\s+unsafe\s+trait|pub\s+trait|macro_rules!)\b")
    while i < n:
        m = item.search(src, i)
        if not m: break
        # is it at depth 0?  (count braces between i and m.start())
        seg = src[i:m.start()]
        depth += seg.count("{") - seg.count("}")
        if depth != 0:
            i = m.end(); continue
        if m.group(1) == "macro_rules!":
            j = src.index("{", m.end())
            i = match_close(src, j) + 1
            continue
        # header runs to the first `{` or `;` at bracket depth 0
        j = m.end(); d = 0
        while j < n:
            ch = src[j]
            if ch in "-=" and src[j + 1] == ">": j += 2; continue
            if ch in "(<[": d += 1
            elif ch in ")>]": d -= 1
            elif ch == "{" and d == 0: break
            elif ch == ";" and d == 0: break
            j += 1
        header = norm(src[m.start():j])
        if src[j] == ";":
            res.append(Block("decl", header, "", line_of(src, m.start()), file))
            i = j + 1; continue
        k = match_close(src, j)
        kind = "trait" if "trait" in m.group(1) else "impl"
        res.append(Block(kind, header, src[j + 1:k], line_of(src, m.start()), file))
        res[-1].body_off = j + 1
        i = k + 1
    return res

class Fn:
    def __init__(self):
        self.name = self.generics = self.params = self.ret = ""
        self.attrs = []; self.line = 0; self.vis = ""; self.unsafe = False

FN_RE = re.compile(r"((?:#\[[^\]]*\]\s*)*)((?:pub(?:\([a-z]+\))?\s+)?)((?:const\s+)?(?:unsafe\s+)?)fn\s+([A-Za-z_][A-Za-z0-9_]*)")

def fns_in(body, base_src=None, base_off=0):
    """fn items at brace depth 0 of a block body"""
    res = []
    i, n = 0, len(body)
    depth = 0
    pos = 0
    while True:
        m = FN_RE.search(body, pos)
        if not m: break
        seg = body[pos:m.start()]
        depth += seg.count("{") - seg.count("}")
        pos = m.start()
        if depth != 0:
            # skip forward past this match
            pos = m.end(); continue
        f = Fn()
        f.attrs = re.findall(r"#\[([^\]]*)\]", m.group(1))
        f.vis = m.group(2).strip(); f.unsafe = "unsafe" in m.group(3)
        f.name = m.group(4)
        j = m.end()
        if body[j] == "<":
            k = match_close(body, j); f.generics = norm(body[j + 1:k]); j = k + 1
        while body[j].isspace(): j += 1
        if body[j] != "(": die(f"fn {f.name}: expected '(' after name")
        k = match_close(body, j); f.params = norm(body[j + 1:k]); j = k + 1
        # return type up to `where`, `{` or `;` at depth 0
        d = 0; k = j
        while k < n:
            ch = body[k]
            if ch in "-=" and body[k + 1] == ">": k += 2; continue
            if ch in "(<[": d += 1
            elif ch in ")>]": d -= 1
            elif d == 0 and (ch in "{;" or re.match(r"\bwhere\b", body[k:k + 6])):
                break
            k += 1
        rt = norm(body[j:k])
        f.ret = rt[2:].strip() if rt.startswith("->") else ""
        # skip to the end of the item
        while body[k] not in "{;": k += 1
        end = match_close(body, k) + 1 if body[k] == "{" else k + 1
        f.line = (line_of(base_src, base_off + m.start(4)) if base_src is not None else 0)
        res.append(f)
        pos = end
    return res

# ------------------------------------------------------------------------------------------------
# signature normalisation

RET_CLASSES = ["box", "ref", "stats", "guard", "claimGuard", "poolGuard", "scopeRef", "scopeMut", "scopeVal",
               "bumpRef", "bumpMut", "bumpVal", "coll", "closureResult", "unit"]

def peel(t):
    """strip Result<_, E> / Option<_> wrappers"""
    t = t.strip()
    while True:
        m = re.match(r"^(Result|Option)\s*<", t)
        if not m: return t
        inner = t[m.end():match_close(t, m.end() - 1)]
        t = split_top(inner)[0]

def lts_of_args(args):
    """leading lifetime arguments of a generic argument list"""
    res = []
    for a in split_top(args):
        if a.startswith("'"): res.append(a)
        else: break
    return res

def classify_ret(ret, owner, fname):
    """→ (class, [raw lifetimes, outermost first]); elided reference lifetimes are reported as `'_`"""
    if ret == "" or ret == "()":
        return "unit", []
    t = peel(ret)
    if t == "R":
        return "closureResult", []
    m = re.match(r"^&\s*('[a-z_]+\s+)?(mut\s+)?(.*)$", t)
    if m:
        outer = (m.group(1) or "'_").strip()
        mut = bool(m.group(2)); inner = m.group(3).strip()
        mm = re.match(r"^(BumpScope|Bump)\s*<(.*)>$", inner)
        if mm:
            lts = lts_of_args(mm.group(2))
            if mm.group(1) == "BumpScope":
                if len(lts) == 0: lts = ["'_"]
                if len(lts) != 1: die(f"{owner}::{fname}: BumpScope with {len(lts)} lifetimes")
                return ("scopeMut" if mut else "scopeRef"), [outer] + lts
            if lts: die(f"{owner}::{fname}: Bump with lifetime arguments")
            return ("bumpMut" if mut else "bumpRef"), [outer]
        if inner == "Self::Target":
            return ("derefMut" if mut else "deref"), [outer]
        if re.match(r"^(CStr|str|\[T\]|A|Self::Allocator|\[MaybeUninit<T>\]|T)$", inner):
            return "ref", [outer]
        die(f"{owner}::{fname}: unsupported reference result `{t}`")
    m = re.match(r"^([A-Za-z_][A-Za-z0-9_]*)\s*(?:<(.*)>)?$", t)
    if not m: die(f"{owner}::{fname}: unsupported result type `{t}`")
    head, args = m.group(1), m.group(2) or ""
    lts = lts_of_args(args)
    table = {"BumpBox": ("box", 1), "Stats": ("stats", 1), "BumpScopeGuard": ("guard", 1), "BumpClaimGuard": ("claimGuard", 2),
             "BumpPoolGuard": ("poolGuard", 1), "BumpScope": ("scopeVal", 1), "Bump": ("bumpVal", 0),
             "FixedBumpVec": ("box", 1), "FixedBumpString": ("box", 1), "AnyStats": ("stats", 1)}
    if head in table:
        cls, k = table[head]
        if len(lts) != k: die(f"{owner}::{fname}: `{head}` with {len(lts)} lifetime arguments, expected {k} (`{t}`)")
        return cls, lts
    if head in ("BumpVec", "MutBumpVec", "MutBumpVecRev", "BumpString", "MutBumpString"):
        return "coll", lts
    die(f"{owner}::{fname}: unsupported result type `{t}`")

def recv_of(params, owner, fname):
    p = split_top(params)
    if not p: return "static"
    a = norm(p[0]).replace("$self", "self")
    if a == "&self": return "ref"
    if a == "&mut self": return "refMut"
    if a in ("self", "mut self"): return "value"
    if re.match(r"^&\s*'[a-z]+\s+(mut\s+)?self$", a): die(f"{owner}::{fname}: receiver with a named lifetime `{a}`")
    return "static"

def closure_lts(params, owner, fname):
    """lifetimes of the `&mut BumpScope<…>` parameter of the `f: impl FnOnce(…) -> R` argument, [] if there is none"""
    m = re.search(r"\bf\s*:\s*impl\s+FnOnce\s*\(", params)
    if not m: return None
    j = m.end() - 1
    inner = params[j + 1:match_close(params, j)].strip().rstrip(",").strip()
    if inner == "": return None
    mm = re.match(r"^&\s*('[a-z_]+\s+)?mut\s+BumpScope\s*<(.*)>$", inner, re.S)
    if not mm: die(f"{owner}::{fname}: unsupported closure parameter `{inner}`")
    outer = (mm.group(1) or "'_").strip()
    lts = lts_of_args(mm.group(2))
    if len(lts) == 0: lts = ["'_"]
    if len(lts) != 1: die(f"{owner}::{fname}: closure BumpScope with {len(lts)} lifetimes")
    return [outer] + lts

def norm_lt(raw, param_names, in_closure=False):
    if raw == "'_": return "closure" if in_closure else "recv"
    if raw == "'static": return "static"
    if raw in param_names: return "param"
    return f"other:{raw}"

class Sig:
    def __init__(self, owner, name, recv, ret, lts, cl, file, line):
        self.owner, self.name, self.recv, self.ret, self.lts, self.cl, self.file, self.line = owner, name, recv, ret, lts, cl, file, line
    def key(self): return (self.owner, self.name)

OWNER_CLASS = {"BumpAllocatorCore": "trAllocator", "Bump": "bump", "BumpScope": "scope", "BumpScopeGuard": "guard", "BumpClaimGuard": "claim", "BumpPool": "pool",
               "BumpPoolGuard": "poolGuard", "BumpAllocator": "trAllocator", "BumpAllocatorScope": "trScope",
               "BumpAllocatorTypedScope": "trTypedScope", "MutBumpAllocatorTypedScope": "trMutTypedScope",
               "BumpVec": "coll", "BumpString": "coll", "MutBumpVec": "coll", "MutBumpVecRev": "coll", "MutBumpString": "coll"}

def effect_class(owner, name):
    """what the method DOES at run time, by name (hand-written ground truth read off the implementation; the meaning of each
    class is the dynamic semantics in lean/BumpProof/Life/Calculus.lean)"""
    n = name[4:] if name.startswith("try_") else name
    if n.startswith("alloc") or n in ("stats", "any_stats", "allocator") or n.startswith("into_"): return "alloc"   # yields something that points into the arena
    if n == "scope_guard": return "mkGuard"
    if n == "scope" and owner == "BumpScopeGuard": return "guardScope"
    if n in ("reset", "reset_to_start"): return "guardReset" if owner == "BumpScopeGuard" else "resetAll"
    if n in ("as_scope", "as_mut_scope", "by_value", "deref", "deref_mut"): return "viewScope"
    if n in ("borrow_with_settings", "borrow_mut_with_settings"): return "viewSame"
    if n == "claim": return "claim"
    if n in ("get", "get_with_size", "get_with_capacity") and owner == "BumpPool": return "poolGet"
    if n == "with_settings": return "convert"
    if n in ("scoped", "scoped_aligned"): return "enterScoped"
    if n == "aligned": return "enterAligned"
    die(f"{owner}::{name}: no effect class for this method name")

# method names that matter (allocation-/handle-producing or epoch-ending); `try_` twins included automatically
PRODUCER = re.compile(r"^(try_)?(alloc(_[a-z_]+)?|stats|any_stats|allocator|scope_guard|scope|scoped|scoped_aligned|aligned|claim|as_scope|as_mut_scope|"
                      r"by_value|get|get_with_size|get_with_capacity|reset|reset_to_start|with_settings|borrow_with_settings|"
                      r"borrow_mut_with_settings|deref|deref_mut|into_[a-z_]+)$")
NIGHTLY = re.compile(r'cfg\s*\(\s*feature\s*=\s*"nightly')
SKIP_INTO = {"into_raw", "into_parts", "into_flattened", "into_bytes", "into_inner"}

def make_sig(owner, f, param_names, file):
    if any(NIGHTLY.search(a) for a in f.attrs):
        return None
    if f.unsafe or not PRODUCER.match(f.name) or f.name in SKIP_INTO:
        return None
    recv = recv_of(f.params, owner, f.name)
    if recv == "static":
        return None
    cls, raw = classify_ret(f.ret, owner, f.name)
    lts = [norm_lt(r, param_names) for r in raw]
    cl_raw = closure_lts(f.params, owner, f.name)
    cl = [norm_lt(r, param_names, in_closure=True) for r in cl_raw] if cl_raw else []
    if cls == "closureResult" and not cl:
        die(f"{owner}::{f.name}: returns the closure result but no `f: impl FnOnce(&mut BumpScope<…>)` parameter was found")
    return Sig(owner, f.name, recv, cls, lts, cl, file, f.line)

# ------------------------------------------------------------------------------------------------
# per-file extraction

def read(repo, rel):
    p = os.path.join(repo, "src", rel)
    if not os.path.exists(p): die(f"missing file src/{rel}")
    return strip_comments(open(p).read())

def impl_target(header):
    """`impl<…> [Trait for] Type<args> [where …]` → (generics, trait or None, type head, type args)"""
    h = re.sub(r"^unsafe\s+", "", header)
    assert h.startswith("impl")
    rest = h[4:].strip()
    gen = ""
    if rest.startswith("<"):
        k = match_close(rest, 0); gen = rest[1:k]; rest = rest[k + 1:].strip()
    rest = re.split(r"\bwhere\b", rest)[0].strip()
    trait = None
    m = re.match(r"^(.*?)\s+for\s+(.*)$", rest)
    if m:
        trait, rest = m.group(1).strip(), m.group(2).strip()
    m = re.match(r"^(&\s*(?:'[a-z_]+\s+)?(?:mut\s+)?)?(?:[A-Za-z_][A-Za-z0-9_]*::)*([A-Za-z_][A-Za-z0-9_]*)\s*(?:<(.*)>)?$", rest)
    if not m:
        return gen, trait, "", "?", ""      # an impl for some other kind of type (tuple, slice, dyn …): not one of ours
    return gen, trait, (m.group(1) or "").strip(), m.group(2), m.group(3) or ""

def inherent_sigs(src, file, type_name, want_param):
    """inherent impl blocks of `type_name`; the allocation lifetime is the first lifetime argument of the Self type"""
    sigs, fwd = [], []
    for b in top_blocks(src, file):
        if b.kind != "impl": continue
        gen, trait, ref, head, args = impl_target(b.header)
        if head != type_name or trait is not None or ref: continue
        lts = lts_of_args(args)
        params = [l for l in lts if l not in ("'_",)] if want_param else []
        pnames = params[-1:] if params else []      # the LAST lifetime argument is the allocation lifetime
        for f in fns_in(b.body, src, b.body_off):
            if f.vis != "pub": continue
            s = make_sig(type_name, f, pnames, file)
            if s: sigs.append(s)
        m = re.search(r"forward_methods!\s*\{", b.body)
        if m:
            inner = b.body[m.end():match_close(b.body, m.end() - 1)]
            mm = re.search(r"lifetime\s*:\s*('[a-z_]+)", inner)
            if not mm: die(f"{file}: forward_methods! without `lifetime:`")
            if not re.search(r"self\s*:\s*self\b", inner): die(f"{file}: forward_methods! without `self: self`")
            fwd.append((mm.group(1), pnames, line_of(src, b.body_off + m.start())))
    return sigs, fwd

def forward_expansion(repo, type_name, lifetime, pnames, file, line):
    src = read(repo, "traits/macros.rs")
    m = re.search(r"macro_rules!\s+forward_methods\s*\{", src)
    if not m: die("traits/macros.rs: macro forward_methods not found")
    body = src[m.end():match_close(src, m.end() - 1)]
    # single arm: ( pattern ) => { expansion }
    a = body.index("=>")
    j = body.index("{", a)
    exp = body[j + 1:match_close(body, j)]
    exp = exp.replace("$lifetime", lifetime).replace("$self", "self")
    sigs = []
    for f in fns_in(exp):
        if f.vis != "pub": continue
        s = make_sig(type_name, f, pnames, "traits/macros.rs→" + file)
        if s:
            s.line = line
            sigs.append(s)
    if len(sigs) < 40: die(f"forward_methods! expansion for {type_name} has only {len(sigs)} relevant methods")
    return sigs

def trait_sigs(src, file, trait_name):
    for b in top_blocks(src, file):
        if b.kind == "trait" and re.search(rf"\btrait\s+{trait_name}\b", b.header):
            m = re.search(rf"\btrait\s+{trait_name}\s*(?:<\s*('[a-z]+)\s*>)?", b.header)
            pnames = [m.group(1)] if m.group(1) else []
            sigs = []
            for f in fns_in(b.body, src, b.body_off):
                s = make_sig(trait_name, f, pnames, file)
                if s: sigs.append(s)
            return sigs
    die(f"{file}: trait {trait_name} not found")

def struct_fields(src, name, file):
    m = re.search(rf"\bpub(?:\(crate\))?\s+struct\s+{name}\s*<", src)
    if not m: die(f"{file}: struct {name} not found")
    k = match_close(src, m.end() - 1)
    generics = src[m.end():k]
    j = src.index("{", k)
    # no tuple/unit structs expected
    if ";" in src[k:j] or "(" in src[k:j].split("where")[0]: die(f"{file}: struct {name} is not a braced struct")
    body = src[j + 1:match_close(src, j)]
    fields = []
    for part in split_top(body):
        part = re.sub(r"#\[[^\]]*\]", "", part).strip()
        if not part: continue
        mm = re.match(r"^(?:pub(?:\([a-z]+\))?\s+)?([a-z_][a-z0-9_]*)\s*:\s*(.*)$", part, re.S)
        if not mm: die(f"{file}: struct {name}: unsupported field `{part}`")
        fields.append((mm.group(1), norm(mm.group(2))))
    lts = [g.split(":")[0].strip() for g in split_top(generics) if g.strip().startswith("'")]
    return lts, fields

def ty_ast(t, ctx):
    """field type → Lean `Ty` term"""
    t = t.strip()
    m = re.match(r"^&\s*('[a-z_]+\s+)?(mut\s+)?(.*)$", t)
    if m:
        return f"(.{'refMut' if m.group(2) else 'ref'} {ty_ast(m.group(3), ctx)})"
    if t == "A": return ".alloc"
    if t in ("usize", "NonZeroUsize", "bool", "()"): return ".prim"
    m = re.match(r"^([A-Za-z_][A-Za-z0-9_]*)\s*(?:<(.*)>)?$", t)
    if not m: die(f"{ctx}: unsupported field type `{t}`")
    head, args = m.group(1), m.group(2)
    targs = [a for a in split_top(args or "") if not a.startswith("'")]
    if head == "PhantomData": return ".phantom"
    if head == "NonNull": return ".nonNull"
    if head in ("Cell", "Mutex", "Vec", "ManuallyDrop"):
        if len(targs) != 1: die(f"{ctx}: `{head}` with {len(targs)} type arguments")
        return f"(.{ {'Cell':'cell','Mutex':'mutex','Vec':'vec','ManuallyDrop':'manuallyDrop'}[head]} {ty_ast(targs[0], ctx)})"
    if head in ("Bump", "BumpScope", "BumpPool", "RawBump", "RawChunk", "Checkpoint", "ChunkHeader"):
        return f'(.named "{head}")'
    die(f"{ctx}: unsupported field type `{t}`")

def auto_impls(src, file, types):
    """explicit `unsafe impl<…> Send|Sync for T<…> where …` and negative impls for the given type heads"""
    res = []
    for b in top_blocks(src, file):
        if b.kind not in ("impl", "decl"): continue
        m = re.match(r"^(unsafe\s+)?impl\s*(<.*?>)?\s*(!?)(Send|Sync)\s+for\s+([A-Za-z_][A-Za-z0-9_]*)", b.header)
        if not m: continue
        if m.group(5) not in types: continue
        if m.group(3) == "!": die(f"{file}:{b.line}: negative impl `{b.header}` (not supported)")
        bounds = []
        gen = (m.group(2) or "<>")[1:-1]
        for g in split_top(gen):
            if ":" in g and not g.startswith("'"):
                nm, bs = g.split(":", 1)
                for bb in bs.split("+"): bounds.append((nm.strip(), bb.strip()))
        w = re.split(r"\bwhere\b", b.header)
        if len(w) > 1:
            for g in split_top(w[1]):
                if ":" in g:
                    nm, bs = g.split(":", 1)
                    for bb in bs.split("+"): bounds.append((nm.strip(), bb.strip()))
        rel = [(n, x) for (n, x) in bounds if x in ("Send", "Sync")]
        res.append((m.group(4), m.group(5), rel, b.line))
    return res

def hand_impls(repo):
    """EVERY hand-written `unsafe impl … Send|Sync for X<…>` of the crate: (trait, qualified type, [(param, Send|Sync)] bounds,
    [type parameters of X that occur in a field outside PhantomData], src).  Parameters bounded by `BumpAllocatorSettings` are
    type-level constants (never stored) and left out."""
    res = []
    for rel in all_sources(repo):
        src = read(repo, rel)
        if not re.search(r"\b(Send|Sync)\s+for\b", src): continue
        for b in top_blocks(src, rel):
            if b.kind not in ("impl", "decl"): continue
            m = re.match(r"^(unsafe\s+)?impl\s*(<.*?>)?\s*(!?)(Send|Sync)\s+for\s+([A-Za-z_][A-Za-z0-9_]*)", b.header)
            if not m: continue
            if m.group(3) == "!": die(f"{rel}:{b.line}: negative impl `{b.header}` (not supported)")
            tr, head = m.group(4), m.group(5)
            bounds = []
            parts = list(split_top((m.group(2) or "<>")[1:-1]))
            w = re.split(r"\bwhere\b", b.header)
            if len(w) > 1: parts += list(split_top(w[1]))
            for g in parts:
                if ":" in g and not g.strip().startswith("'"):
                    nm, bs = g.split(":", 1)
                    for bb in bs.split("+"): bounds.append((nm.strip(), bb.strip()))
            markers = {n for n, x in bounds if x.startswith("BumpAllocatorSettings")}
            sm = re.search(rf"\bstruct\s+{head}\b\s*(<)?", src)
            if not sm: die(f"{rel}:{b.line}: `{tr} for {head}`: struct {head} is not defined in the same file")
            k = sm.end()
            generics = ""
            if sm.group(1):
                k = match_close(src, sm.end() - 1); generics = src[sm.end():k]; k += 1
            rest = src[k:]
            mm = re.match(r"^\s*(?:where[^{(;]*)?([({;])", rest, re.S)
            if not mm: die(f"{rel}: struct {head}: unsupported shape")
            body = ""
            if mm.group(1) != ";":
                j = k + mm.end() - 1
                body = src[j + 1:match_close(src, j)]
            params = []
            for g in split_top(generics):
                g = g.strip()
                if not g or g.startswith("'") or g.startswith("const "): continue
                params.append(re.split(r"[:=\s]", g, 1)[0])
            if "$" in generics:
                # the struct is declared inside a macro with a macro-supplied parameter list: take the impl's type arguments
                am = re.search(rf"\bfor\s+{head}\s*<([^>]*)>", b.header)
                params = [a.strip() for a in split_top(am.group(1))] if am else []
                params = [a for a in params if re.match(r"^[A-Z][A-Za-z0-9]*$", a)]
            # field types with every PhantomData<…> removed
            txt = body
            while True:
                pm = re.search(r"\bPhantomData\s*<", txt)
                if not pm: break
                txt = txt[:pm.start()] + " " + txt[match_close(txt, pm.end() - 1) + 1:]
            stored = [p_ for p_ in params if p_ not in markers and re.search(rf"\b{p_}\b", txt)]
            comps = rel[:-3].split("/")
            qual = head if head not in ("IntoIter", "Drain", "Splice") else comps[0] + "::" + head
            res.append((tr.lower(), qual, [(n, x.lower()) for n, x in bounds if x in ("Send", "Sync")], stored, f"{rel}:{b.line}"))
    need = {("send", "Bump"), ("send", "mut_bump_vec::IntoIter"), ("sync", "mut_bump_vec::IntoIter"), ("send", "BumpBox"), ("send", "FixedBumpVec")}
    have = {(r[0], r[1]) for r in res}
    for k in need - have: die(f"expected hand-written `{k[0]} for {k[1]}` impl not found")
    return res

REL = {"==": "eq", ">=": "ge", "<=": "le", "<": "lt", ">": "gt", "!=": "ne"}

def settings_asserts(repo):
    src = read(repo, "raw_bump.rs")
    blocks = {}
    for name in ("ensure_satisfies_settings", "ensure_scope_satisfies_settings",
                 "ensure_satisfies_settings_for_borrow", "ensure_satisfies_settings_for_borrow_mut"):
        m = re.search(rf"\bfn\s+{name}\s*<\s*NewS\s*>\s*\(\s*&self\s*\)", src)
        if not m: die(f"raw_bump.rs: fn {name}<NewS>(&self) not found")
        j = src.index("{", m.end())
        body = src[j + 1:match_close(src, j)]
        cm = re.search(r"\bconst\s*\{", body)
        if not cm: die(f"raw_bump.rs: {name}: no const block")
        cb = body[cm.end():match_close(body, cm.end() - 1)]
        rels = []
        consumed = 0
        for am in re.finditer(r"\bassert!\s*\(", cb):
            inner = cb[am.end():match_close(cb, am.end() - 1)]
            cm2 = re.match(r'^(.*?)\s*(?:,\s*"|$)', inner.strip(), re.S)      # condition = text before the message string
            cond = cm2.group(1)
            mm = re.match(r"^NewS::([A-Z_]+)\s*(==|>=|<=|<|>|!=)\s*S::([A-Z_]+)$", norm(cond))
            if not mm or mm.group(1) != mm.group(3):
                die(f"raw_bump.rs: {name}: unsupported const assertion `{norm(cond)}`")
            rels.append((mm.group(1), REL[mm.group(2)]))
            consumed += 1
        if consumed == 0: die(f"raw_bump.rs: {name}: const block without assertions")
        # anything else in the const block is unexpected
        rest = re.sub(r'"(?:[^"\\]|\\.)*"', '""', cb)
        rest = re.sub(r"\bassert!\s*\((?:[^()]|\([^()]*\))*\)\s*;", "", rest).strip()
        if rest: die(f"raw_bump.rs: {name}: unexpected content in const block: `{norm(rest)[:80]}`")
        blocks[name] = (rels, line_of(src, m.start()))
    return blocks

def conversion_calls(repo):
    """which ensure_* block each public conversion method calls"""
    res = []
    for rel, ty in (("bump.rs", "Bump"), ("bump_scope.rs", "BumpScope")):
        src = read(repo, rel)
        for meth in ("with_settings", "borrow_with_settings", "borrow_mut_with_settings"):
            m = re.search(rf"\bpub\s+fn\s+{meth}\s*<\s*NewS\s*>\s*\(([^)]*)\)", src)
            if not m: die(f"{rel}: pub fn {meth}<NewS> not found")
            j = src.index("{", m.end())
            body = src[j + 1:match_close(src, j)]
            cm = re.search(r"\.\s*(ensure_[a-z_]+)\s*::\s*<\s*NewS\s*>\s*\(\s*\)", body)
            if not cm: die(f"{rel}: {meth}: no call of an ensure_*::<NewS>() block")
            res.append((ty, meth, cm.group(1), line_of(src, m.start())))
    return res

def scope_impls(repo):
    src = read(repo, "traits/bump_allocator_core_scope.rs")
    res = []
    for b in top_blocks(src, "traits/bump_allocator_core_scope.rs"):
        if b.kind not in ("impl", "decl"): continue
        if "BumpAllocatorCoreScope" not in b.header or " for " not in b.header: continue
        m = re.match(r"^unsafe\s+impl\s*<(.*?)>\s*BumpAllocatorCoreScope\s*<\s*('[a-z]+)\s*>\s+for\s+(.*?)(?:\s+where\b.*)?$", b.header)
        if not m: die(f"bump_allocator_core_scope.rs:{b.line}: unsupported impl header `{b.header}`")
        gen, lt, target = m.group(1), m.group(2), m.group(3).strip()
        bound_b = re.search(rf"\bB\s*:\s*BumpAllocatorCoreScope\s*<\s*{lt}\s*>", gen) is not None
        t = norm(target)
        if re.match(rf"^BumpScope\s*<\s*{lt}\s*,", t): ent = ("scope", "own")
        elif re.match(rf"^&\s*{lt}\s+Bump\s*<", t): ent = ("refBump", "refLt")
        elif re.match(rf"^&\s*{lt}\s+mut\s+Bump\s*<", t): ent = ("refMutBump", "refLt")
        # a reference to a Bump whose lifetime is NOT the promised `'a` (elided or another name): `'a` is then bound by
        # nothing at all — recorded as `anon`, which `sigOK` rejects
        elif re.match(r"^&\s*('[a-z_]+\s+)?Bump\s*<", t): ent = ("refBump", "anon")
        elif re.match(r"^&\s*('[a-z_]+\s+)?mut\s+Bump\s*<", t): ent = ("refMutBump", "anon")
        # forwarding impls: `'a` is `B`'s scope lifetime only if the header says `B: BumpAllocatorCoreScope<'a>`; without that
        # bound the implementor promises EVERY `'a` (recorded as `anon`, which `sigOK` rejects)
        elif t == "&B": ent = ("refB", "forward" if bound_b else "anon")
        elif t == "&mut B": ent = ("refMutB", "forward" if bound_b else "anon")
        elif re.match(r"^(WithoutDealloc|WithoutShrink)\s*<\s*B\s*>$", t): ent = ("wrapper", "forward" if bound_b else "anon")
        else: die(f"bump_allocator_core_scope.rs:{b.line}: unsupported implementor `{t}` of BumpAllocatorCoreScope<{lt}>")
        res.append(ent + (t, b.line))
    if not res: die("no BumpAllocatorCoreScope impls found")
    return res

def deref_sigs(src, file, type_name, alloc_param_index):
    """Deref / DerefMut impls of a guard type: Target must be BumpScope<'x, …> with 'x the Self type's lifetime argument number alloc_param_index"""
    sigs = []
    for b in top_blocks(src, file):
        if b.kind != "impl": continue
        gen, trait, ref, head, args = impl_target(b.header)
        if head != type_name or trait not in ("Deref", "DerefMut"): continue
        self_lts = lts_of_args(args)
        if trait == "Deref":
            m = re.search(r"\btype\s+Target\s*=\s*BumpScope\s*<\s*('[a-z_]+)", b.body)
            if not m: die(f"{file}: Deref for {type_name}: Target is not BumpScope<'_, …>")
            if alloc_param_index >= len(self_lts) or self_lts[alloc_param_index] != m.group(1) or m.group(1) == "'_":
                die(f"{file}: Deref for {type_name}: Target lifetime {m.group(1)} is not lifetime argument #{alloc_param_index} of the Self type {self_lts}")
        for f in fns_in(b.body, src, b.body_off):
            if f.name not in ("deref", "deref_mut"): continue
            recv = recv_of(f.params, type_name, f.name)
            cls, raw = classify_ret(f.ret, type_name, f.name)
            if cls not in ("deref", "derefMut"): die(f"{file}: {type_name}::{f.name}: result is not &(mut) Self::Target")
            sigs.append(Sig(type_name, f.name, recv, "scopeMut" if cls == "derefMut" else "scopeRef",
                            [norm_lt(raw[0], []), "param"], [], file, f.line))
    names = sorted(s.name for s in sigs)
    if names != ["deref", "deref_mut"]: die(f"{file}: {type_name}: expected Deref and DerefMut impls, found {names}")
    return sigs

def collection_sigs(repo):
    sigs = []
    for rel, ty in (("bump_vec.rs", "BumpVec"), ("bump_string.rs", "BumpString"), ("mut_bump_vec.rs", "MutBumpVec"),
                    ("mut_bump_vec_rev.rs", "MutBumpVecRev"), ("mut_bump_string.rs", "MutBumpString")):
        src = read(repo, rel)
        found = 0
        for b in top_blocks(src, rel):
            if b.kind != "impl": continue
            gen, trait, ref, head, args = impl_target(b.header)
            if head != ty or trait is not None: continue
            m = re.search(r"\bA\s*:\s*(Mut)?BumpAllocatorTypedScope\s*<\s*('[a-z]+)\s*>", b.header)
            if not m: continue
            for f in fns_in(b.body, src, b.body_off):
                if f.vis != "pub" or not f.name.startswith("into_") or f.name in SKIP_INTO: continue
                s = make_sig(ty, f, [m.group(2)], rel)
                if s and s.ret != "coll":
                    sigs.append(s); found += 1
        if found == 0: die(f"{rel}: no `into_*` methods carrying the allocator lifetime found for {ty}")
    return sigs

def drop_impls(repo):
    res = []
    for rel, ty in (("bump.rs", "Bump"), ("bump_scope.rs", "BumpScope"), ("bump_scope_guard.rs", "BumpScopeGuard"),
                    ("bump_claim_guard.rs", "BumpClaimGuard"), ("bump_pool.rs", "BumpPoolGuard"), ("bump_pool.rs", "BumpPool")):
        src = read(repo, rel)
        has = any(b.kind == "impl" and re.search(rf"\bDrop\s+for\s+{ty}\b", b.header) for b in top_blocks(src, rel))
        res.append((ty, has))
    return res


# ------------------------------------------------------------------------------------------------
# conversions between lifetime-carrying public types

LT_TYPES = {"Stats": 1, "Chunk": 1, "ChunkPrevIter": 1, "ChunkNextIter": 1, "AnyStats": 1, "AnyChunk": 1, "AnyChunkPrevIter": 1,
            "AnyChunkNextIter": 1, "BumpBox": 1, "FixedBumpVec": 1, "FixedBumpString": 1, "BumpScopeGuard": 1, "BumpClaimGuard": 2,
            "BumpPoolGuard": 1, "BumpScope": 1}
STATS_TYPES = ("Stats", "Chunk", "ChunkPrevIter", "ChunkNextIter", "AnyStats", "AnyChunk", "AnyChunkPrevIter", "AnyChunkNextIter")
VIEW_TRAITS = {"AsRef": "as_ref", "AsMut": "as_mut", "Borrow": "borrow", "BorrowMut": "borrow_mut", "Deref": "deref", "DerefMut": "deref_mut"}

def lt_positions(t):
    """every lifetime position of a type, left to right: written lifetimes, `&` without one and a lifetime-carrying
    type of the crate written without its lifetime arguments count as the elided `'_`"""
    res = []
    names = "|".join(sorted(LT_TYPES, key=len, reverse=True))
    for m in re.finditer(rf"&\s*(?!\s*')|'[a-z_][a-z0-9_]*\b|\b({names})\b(?!\s*<\s*')", t):
        tok = m.group(0)
        if tok.startswith("'"): res.append(tok)
        elif tok.startswith("&"): res.append("'_")
        else: res += ["'_"] * LT_TYPES[m.group(1)]
    return res

def named_lts(t):
    return {l for l in lt_positions(t) if l not in ("'_", "'static")}

def lt_rel(l, named, elided):
    if l == "'_": return elided
    if l == "'static": return "static_"
    if l in named: return "fromInput"
    return "other:" + l

def type_head(t):
    m = re.match(r"^(&\s*(?:'[a-z_]+\s+)?(?:mut\s+)?)?(?:[A-Za-z_][A-Za-z0-9_]*::)*([A-Za-z_][A-Za-z0-9_]*)", t.strip())
    if not m: return None, None
    ref = (m.group(1) or "")
    return ("&mut " if "mut" in ref else "&" if ref else ""), m.group(2)

def all_sources(repo):
    root = os.path.join(repo, "src")
    res = []
    for d, dirs, files in os.walk(root):
        dirs[:] = sorted(x for x in dirs if x != "tests")
        for f in sorted(files):
            if f.endswith(".rs") and f != "tests.rs":
                res.append(os.path.relpath(os.path.join(d, f), root))
    return res

def self_type_of(header):
    h = re.sub(r"^unsafe\s+", "", header)[4:].strip()
    if h.startswith("<"): h = h[match_close(h, 0) + 1:].strip()
    h = re.split(r"\bwhere\b", h)[0].strip()
    m = re.match(r"^(.*?)\s+for\s+(.*)$", h)
    return (m.group(1).strip(), m.group(2).strip()) if m else (None, h)

def value_conversions(repo):
    """→ [(form, input, name, output, [rel], src)]"""
    rows = []
    def add(form, inp, name, out, rels, rel, line):
        if rels: rows.append((form, inp, name, out, rels, f"{rel}:{line}"))
    for rel in all_sources(repo):
        src = read(repo, rel)
        if not re.search(r"\b(" + "|".join(LT_TYPES) + r")\b", src): continue
        try:
            blocks = top_blocks(src, rel)
        except TErr:
            raise
        for b in blocks:
            if b.kind != "impl": continue
            trait, self_ty = self_type_of(b.header)
            sref, shead = type_head(self_ty)
            if shead is None: continue
            if trait is not None:
                tm = re.match(r"^(?:[A-Za-z_][A-Za-z0-9_]*::)*([A-Za-z_][A-Za-z0-9_]*)\s*(?:<(.*)>)?$", trait, re.S)
                if not tm: continue
                tname, targs = tm.group(1), (tm.group(2) or "").strip()
                if tname in ("From", "TryFrom"):
                    iref, ihead = type_head(targs)
                    if ihead is None: continue
                    ours = lambda r, h: h in LT_TYPES or (r and h == "Bump")
                    if not (ours(iref, ihead) or ours(sref, shead)): continue
                    named = named_lts(targs)
                    add("from_", iref + ihead, sref + shead, sref + shead, [lt_rel(l, named, "fresh") for l in lt_positions(self_ty)], rel, b.line)
                elif tname in VIEW_TRAITS and shead in LT_TYPES and not sref:
                    target = None
                    mt = re.search(r"\btype\s+Target\s*=\s*([^;]+);", b.body)
                    if mt: target = norm(mt.group(1))
                    for f in fns_in(b.body, src, b.body_off):
                        if f.name != VIEW_TRAITS[tname]: continue
                        recv = recv_of(f.params, shead, f.name)
                        ret = f.ret.replace("Self::Target", target or "Self::Target").replace("Self", self_ty)
                        named = named_lts(self_ty)
                        add("refView", shead, f.name + ("" if not targs else "<" + norm(targs) + ">"), norm(f.ret),
                            [lt_rel(l, named, "fromInput" if recv in ("ref", "refMut") else "fresh") for l in lt_positions(ret)], rel, f.line)
                elif tname in ("Iterator", "DoubleEndedIterator", "IntoIterator") and shead in LT_TYPES and not sref:
                    mt = re.search(r"\btype\s+Item\s*=\s*([^;]+);", b.body)
                    if not mt: continue
                    item = norm(mt.group(1)).replace("Self", self_ty)
                    named = named_lts(self_ty)
                    _, ohead = type_head(item)
                    add("item", shead, "next" if tname != "IntoIterator" else "into_iter", ohead or "?",
                        [lt_rel(l, named, "fresh") for l in lt_positions(item)], rel, b.line)
                continue
            # inherent impls
            if sref: continue
            named = named_lts(self_ty)
            if shead in STATS_TYPES:
                for f in fns_in(b.body, src, b.body_off):
                    if f.vis != "pub" or f.unsafe: continue
                    recv = recv_of(f.params, shead, f.name)
                    if recv == "static": continue
                    ret = f.ret.replace("Self", self_ty)
                    oref, ohead = type_head(peel(ret)) if ret and not ret.startswith("impl") else ("", "impl")
                    out = (oref or "") + (ohead or "?")
                    if re.match(r"^Option\s*<", ret.strip()): out = f"Option<{out}>"
                    add("accessor", shead, f.name, out,
                        [lt_rel(l, named, "fromInput" if recv in ("ref", "refMut") else "fresh") for l in lt_positions(ret)], rel, f.line)
            if shead in LT_TYPES:
                # associated functions that turn one lifetime-carrying value into another (`FixedBumpVec::from_init(BumpBox<'a,…>)`)
                for f in fns_in(b.body, src, b.body_off):
                    if f.vis != "pub" or f.unsafe or recv_of(f.params, shead, f.name) != "static": continue
                    ps = split_top(f.params)
                    if len(ps) != 1 or ":" not in ps[0]: continue
                    pty = norm(ps[0].split(":", 1)[1])
                    pref, phead = type_head(pty)
                    if phead not in LT_TYPES: continue
                    ret = peel(f.ret).replace("Self", self_ty)
                    add("from_", pref + phead, f"{shead}::{f.name}", shead, [lt_rel(l, named_lts(pty), "fresh") for l in lt_positions(ret)], rel, f.line)
            if shead in ("BumpVec", "BumpString", "MutBumpVec", "MutBumpVecRev", "MutBumpString"):
                m = re.search(r"\bA\s*:\s*(Mut)?BumpAllocatorTypedScope\s*<\s*('[a-z]+)\s*>", b.header)
                for f in fns_in(b.body, src, b.body_off):
                    if f.vis != "pub" or f.unsafe or recv_of(f.params, shead, f.name) != "static": continue
                    for prm in split_top(f.params):
                        if ":" not in prm: continue
                        pty = norm(prm.split(":", 1)[1])
                        pref, phead = type_head(pty)
                        if phead in LT_TYPES and phead != "BumpScope":
                            bound = {m.group(2)} if m else set()
                            add("ctor", pref + phead, f"{shead}::{f.name}", shead, [lt_rel(l, bound, "fresh") for l in lt_positions(pty)], rel, f.line)
    seen, out = set(), []
    for r in rows:
        k = (r[1], r[2])
        if k in seen:
            prev = next(x for x in out if (x[1], x[2]) == k)
            if prev[4] != r[4]: die(f"conversion {r[1]} -> {r[2]} declared twice with different lifetime relations ({prev[5]}, {r[5]})")
            continue
        seen.add(k); out.append(r)
    need = [("Stats", "AnyStats"), ("Chunk", "AnyChunk"), ("ChunkPrevIter", "AnyChunkPrevIter"), ("ChunkNextIter", "AnyChunkNextIter"),
            ("Chunk", "Stats"), ("AnyChunk", "AnyStats"), ("&Bump", "&BumpScope"), ("&mut Bump", "&mut BumpScope"),
            ("Stats", "current_chunk"), ("Stats", "small_to_big"), ("Stats", "big_to_small"), ("Chunk", "prev"), ("Chunk", "next"),
            ("Chunk", "iter_prev"), ("Chunk", "iter_next"), ("Chunk", "allocator"), ("AnyStats", "current_chunk"), ("AnyStats", "small_to_big"),
            ("AnyStats", "big_to_small"), ("AnyChunk", "prev"), ("AnyChunk", "next"), ("AnyChunk", "iter_prev"), ("AnyChunk", "iter_next"),
            ("ChunkPrevIter", "next"), ("ChunkNextIter", "next"), ("AnyChunkPrevIter", "next"), ("AnyChunkNextIter", "next"),
            ("FixedBumpVec", "BumpVec::from_parts"), ("BumpBox", "FixedBumpVec::from_init")]
    for k in need:
        if k not in seen: die(f"expected conversion {k[0]} -> {k[1]} not found (or it no longer has a supported shape)")
    return out

# ------------------------------------------------------------------------------------------------

EXPECTED = [
    ("Bump", n) for n in ("alloc", "try_alloc", "alloc_str", "alloc_fmt", "alloc_fmt_mut", "alloc_cstr", "alloc_cstr_from_str", "alloc_cstr_fmt",
                           "alloc_cstr_fmt_mut", "alloc_iter", "alloc_iter_exact", "alloc_iter_mut", "alloc_iter_mut_rev", "alloc_slice_copy",
                           "alloc_slice_clone", "alloc_slice_move", "alloc_slice_fill", "alloc_slice_fill_with", "alloc_uninit", "alloc_uninit_slice",
                           "alloc_with", "alloc_default", "alloc_try_with", "alloc_try_with_mut", "stats", "allocator", "scope_guard", "scoped",
                           "scoped_aligned", "aligned", "claim", "as_scope", "as_mut_scope", "reset", "reset_to_start", "with_settings",
                           "borrow_with_settings", "borrow_mut_with_settings")
] + [
    ("BumpScope", n) for n in ("alloc", "alloc_str", "alloc_fmt", "alloc_cstr", "alloc_iter", "alloc_iter_mut", "alloc_slice_copy", "alloc_try_with",
                                "alloc_try_with_mut", "stats", "allocator", "scope_guard", "scoped", "scoped_aligned", "aligned", "claim", "by_value",
                                "with_settings", "borrow_with_settings", "borrow_mut_with_settings")
] + [("BumpScopeGuard", "scope"), ("BumpScopeGuard", "reset"), ("BumpClaimGuard", "deref"), ("BumpClaimGuard", "deref_mut"),
     ("BumpPool", "get"), ("BumpPool", "try_get"), ("BumpPool", "reset"), ("BumpPool", "reset_to_start"),
     ("BumpPoolGuard", "deref"), ("BumpPoolGuard", "deref_mut"),
     ("BumpAllocator", "as_scope"), ("BumpAllocator", "as_mut_scope"), ("BumpAllocator", "scope_guard"), ("BumpAllocator", "scoped"),
     ("BumpAllocator", "scoped_aligned"), ("BumpAllocatorScope", "claim"), ("BumpAllocatorScope", "stats"), ("BumpAllocatorScope", "aligned"),
     ("BumpAllocatorScope", "allocator"), ("BumpAllocatorCore", "any_stats"), ("BumpAllocatorTypedScope", "alloc"), ("BumpAllocatorTypedScope", "alloc_str"),
     ("BumpAllocatorTypedScope", "alloc_iter"), ("BumpAllocatorTypedScope", "alloc_fmt"), ("BumpAllocatorTypedScope", "alloc_cstr"),
     ("MutBumpAllocatorTypedScope", "alloc_iter_mut"), ("MutBumpAllocatorTypedScope", "alloc_fmt_mut"),
     ("BumpVec", "into_boxed_slice"), ("BumpVec", "into_slice"), ("BumpString", "into_boxed_str"), ("BumpString", "into_cstr"),
     ("MutBumpVec", "into_boxed_slice"), ("MutBumpVecRev", "into_boxed_slice"), ("MutBumpString", "into_boxed_str")]

def extract(repo):
    sigs = []
    # Bump, BumpScope: inherent methods + forward_methods! expansion
    for rel, ty, want in (("bump.rs", "Bump", False), ("bump_scope.rs", "BumpScope", True)):
        src = read(repo, rel)
        s, fwd = inherent_sigs(src, rel, ty, want)
        sigs += s
        if len(fwd) != 1: die(f"{rel}: expected exactly one forward_methods! invocation in an inherent impl of {ty}, found {len(fwd)}")
        lifetime, pnames, line = fwd[0]
        if lifetime not in ("'_",) and lifetime not in pnames:
            die(f"{rel}: forward_methods! lifetime {lifetime} is not the allocation lifetime parameter of {ty} {pnames}")
        sigs += forward_expansion(repo, ty, lifetime, pnames, rel, line)
    # guards
    src = read(repo, "bump_scope_guard.rs")
    s, fwd = inherent_sigs(src, "bump_scope_guard.rs", "BumpScopeGuard", True)
    # BumpScopeGuard<'a>: `'a` is the borrow of the parent, it is not an allocation lifetime a method may hand out
    for x in s:
        x.lts = ["other:guard-param" if l == "param" else l for l in x.lts]
    sigs += s
    src = read(repo, "bump_claim_guard.rs")
    lts, fields = struct_fields(src, "BumpClaimGuard", "bump_claim_guard.rs")
    fdict = dict(fields)
    if lts != ["'b", "'a"] or not re.match(r"^&\s*'b\s+BumpScope\s*<\s*'a\s*,", fdict.get("original", "")) \
            or not re.match(r"^BumpScope\s*<\s*'a\s*,", fdict.get("claimant", "")):
        die(f"bump_claim_guard.rs: BumpClaimGuard<'b, 'a> {{ original: &'b BumpScope<'a,…>, claimant: BumpScope<'a,…> }} expected, found {lts} {fields}")
    sigs += deref_sigs(src, "bump_claim_guard.rs", "BumpClaimGuard", 1)
    src = read(repo, "bump_pool.rs")
    s, _ = inherent_sigs(src, "bump_pool.rs", "BumpPool", False)
    sigs += s
    lts, fields = struct_fields(src, "BumpPoolGuard", "bump_pool.rs")
    fdict = dict(fields)
    if lts != ["'a"] or not re.match(r"^&\s*'a\s+BumpPool\s*<", fdict.get("pool", "")):
        die(f"bump_pool.rs: BumpPoolGuard<'a> {{ pool: &'a BumpPool<…> }} expected, found {lts} {fields}")
    sigs += deref_sigs(src, "bump_pool.rs", "BumpPoolGuard", 0)
    # traits
    for rel, tr in (("traits/bump_allocator_core.rs", "BumpAllocatorCore"), ("traits/bump_allocator.rs", "BumpAllocator"), ("traits/bump_allocator_scope.rs", "BumpAllocatorScope"),
                    ("traits/bump_allocator_typed_scope.rs", "BumpAllocatorTypedScope"),
                    ("traits/mut_bump_allocator_typed_scope.rs", "MutBumpAllocatorTypedScope")):
        sigs += trait_sigs(read(repo, rel), rel, tr)
    sigs += collection_sigs(repo)
    # dedupe (cfg twins) and check the expected items
    seen = {}
    for s in sigs:
        k = s.key()
        if k in seen:
            o = seen[k]
            if (o.recv, o.ret, o.lts, o.cl) != (s.recv, s.ret, s.lts, s.cl):
                die(f"{s.owner}::{s.name} declared twice with different signatures")
            continue
        seen[k] = s
    for k in EXPECTED:
        if k not in seen: die(f"expected method {k[0]}::{k[1]} not found (or it no longer has a supported shape)")
    for s in seen.values():
        for l in s.lts + s.cl:
            if l.startswith("other:") and l != "other:guard-param":
                die(f"{s.owner}::{s.name}: result carries the lifetime {l[6:]} which is neither the allocation lifetime, '_ nor 'static")
    # structs + auto impls
    structs = []
    for rel, names in (("bump.rs", ["Bump"]), ("bump_scope.rs", ["BumpScope"]), ("bump_scope_guard.rs", ["BumpScopeGuard", "Checkpoint"]),
                       ("bump_claim_guard.rs", ["BumpClaimGuard"]), ("bump_pool.rs", ["BumpPool", "BumpPoolGuard"]),
                       ("raw_bump.rs", ["RawBump", "RawChunk"]), ("stats.rs", ["Stats"]), ("bump_box.rs", ["BumpBox"])):
        src = read(repo, rel)
        for nme in names:
            if nme == "Checkpoint":
                m = re.search(r"\bpub\s+struct\s+Checkpoint\s*\{", src)
                if not m: die("bump_scope_guard.rs: struct Checkpoint not found")
                body = src[m.end():match_close(src, m.end() - 1)]
                fields = []
                for part in split_top(body):
                    mm = re.match(r"^(?:pub(?:\([a-z]+\))?\s+)?([a-z_]+)\s*:\s*(.*)$", part.strip(), re.S)
                    if not mm: die(f"Checkpoint: unsupported field `{part}`")
                    fields.append((mm.group(1), norm(mm.group(2))))
            else:
                _, fields = struct_fields(src, nme, rel)
            if nme == "BumpBox":
                asts = [".nonNull" if re.match(r"^NonNull\s*<", t) else ".phantom" if t.startswith("PhantomData") else die(f"BumpBox: unsupported field type `{t}`") for _, t in fields]
            else:
                asts = [ty_ast(t, f"{rel}: struct {nme}") for _, t in fields]
            structs.append((nme, asts, rel))
    autos = []
    handle_types = {"Bump", "BumpScope", "BumpScopeGuard", "BumpClaimGuard", "BumpPool", "BumpPoolGuard", "RawBump", "RawChunk", "Stats", "BumpBox", "Checkpoint"}
    for rel in ("bump.rs", "bump_scope.rs", "bump_scope_guard.rs", "bump_claim_guard.rs", "bump_pool.rs", "raw_bump.rs", "stats.rs", "bump_box.rs"):
        for a in auto_impls(read(repo, rel), rel, handle_types):
            autos.append(a + (rel,))
    return list(seen.values()), scope_impls(repo), settings_asserts(repo), conversion_calls(repo), structs, autos, drop_impls(repo), value_conversions(repo), hand_impls(repo)

# ------------------------------------------------------------------------------------------------
# Lean output

def lean_str(s):
    return '"' + s.replace("\\", "\\\\").replace('"', '\\"') + '"'

def lean_lt(l):
    if l.startswith("other:"): return f"(.other {lean_str(l[6:])})"
    return "." + {"static": "static_"}.get(l, l)

def emit(repo, outdir):
    sigs, impls, asserts, convs, structs, autos, drops, vconvs, hands = extract(repo)
    L = []
    L.append("/-")
    L.append("  GENERATED by translator/sigs2lean.py from the Rust sources of bump-scope — do not edit.")
    L.append("  Signature table (receiver mode + lifetimes of results), BumpAllocatorCoreScope implementors,")
    L.append("  const-assert relations of the settings conversions, struct fields + explicit Send/Sync impls.")
    L.append("-/")
    L.append("import BumpProof.Life.Sig")
    L.append("")
    L.append("namespace Gen.Sigs")
    L.append("open Life")
    L.append("")
    L.append("def sigs : List Sig := [")
    order = {"Bump": 0, "BumpScope": 1, "BumpScopeGuard": 2, "BumpClaimGuard": 3, "BumpPool": 4, "BumpPoolGuard": 5}
    sigs.sort(key=lambda s: (order.get(s.owner, 9), s.owner, s.name))
    rows = []
    for s in sigs:
        lts = "[" + ", ".join(lean_lt(l) for l in s.lts) + "]"
        cl = "[" + ", ".join(lean_lt(l) for l in s.cl) + "]"
        if s.owner not in OWNER_CLASS: die(f"no owner class for {s.owner}")
        rows.append(f"  ⟨{lean_str(s.owner)}, {lean_str(s.name)}, .{OWNER_CLASS[s.owner]}, .{effect_class(s.owner, s.name)}, .{s.recv}, .{s.ret}, {lts}, {cl}, {lean_str(s.file + ':' + str(s.line))}⟩")
    L.append(",\n".join(rows))
    L.append("]")
    L.append("")
    L.append("def scopeImpls : List ScopeImpl := [")
    L.append(",\n".join(f"  ⟨.{k}, .{lt}, {lean_str(t)}, {line}⟩" for (k, lt, t, line) in impls))
    L.append("]")
    L.append("")
    L.append("def settingsAsserts : List SettingsAssert := [")
    rows = []
    for name, (rels, line) in asserts.items():
        rr = "[" + ", ".join(f"(.{ {'UP':'up','MIN_ALIGN':'minAlign','GUARANTEED_ALLOCATED':'guaranteedAllocated','CLAIMABLE':'claimable'}.get(f) or die('unsupported setting ' + f)}, .{r})" for f, r in rels) + "]"
        rows.append(f"  ⟨{lean_str(name)}, {rr}, {line}⟩")
    L.append(",\n".join(rows))
    L.append("]")
    L.append("")
    L.append("def conversions : List Conversion := [")
    L.append(",\n".join(f"  ⟨{lean_str(ty)}, {lean_str(m)}, {lean_str(blk)}, {line}⟩" for ty, m, blk, line in convs))
    L.append("]")
    L.append("")
    L.append("/-- conversions between lifetime-carrying public types: (form, input, name, output, relation of every lifetime position")
    L.append("    of the output to the lifetimes named by the input) -/")
    L.append("def valueConvs : List ValueConv := [")
    def lean_rel(r): return f"(.other {lean_str(r[6:])})" if r.startswith("other:") else "." + r
    L.append(",\n".join(f"  ⟨.{fm}, {lean_str(i)}, {lean_str(n)}, {lean_str(o)}, [{', '.join(lean_rel(r) for r in rels)}], {lean_str(srcl)}⟩"
                        for fm, i, n, o, rels, srcl in vconvs))
    L.append("]")
    L.append("")
    L.append("def structs : List StructDef := [")
    L.append(",\n".join(f"  ⟨{lean_str(n)}, [{', '.join(a)}]⟩" for n, a, _ in structs))
    L.append("]")
    L.append("")
    L.append("def autoImpls : List AutoImpl := [")
    rows = []
    for tr, ty, bounds, line, rel in autos:
        bb = "[" + ", ".join(f"({lean_str(n)}, .{b.lower()})" for n, b in bounds) + "]"
        rows.append(f"  ⟨.{tr.lower()}, {lean_str(ty)}, {bb}, {lean_str(rel + ':' + str(line))}⟩")
    L.append(",\n".join(rows))
    L.append("]")
    L.append("")
    L.append("/-- every hand-written `unsafe impl Send/Sync` of the crate: (trait, type, bounds, type parameters stored in a field outside PhantomData) -/")
    L.append("def handImpls : List HandImpl := [")
    L.append(",\n".join(f"  ⟨.{tr}, {lean_str(ty)}, [{', '.join(f'({lean_str(n)}, .{x})' for n, x in bs)}], [{', '.join(lean_str(p_) for p_ in st)}], {lean_str(srcl)}⟩"
                        for tr, ty, bs, st, srcl in hands))
    L.append("]")
    L.append("")
    L.append("def dropImpls : List (String × Bool) := [" + ", ".join(f"({lean_str(t)}, {'true' if h else 'false'})" for t, h in drops) + "]")
    L.append("")
    L.append("def table : Table := { sigs := sigs, scopeImpls := scopeImpls, settingsAsserts := settingsAsserts, conversions := conversions, valueConvs := valueConvs,")
    L.append("                       structs := structs, autoImpls := autoImpls, dropImpls := dropImpls, handImpls := handImpls }")
    L.append("")
    L.append("end Gen.Sigs")
    text = "\n".join(L) + "\n"
    os.makedirs(outdir, exist_ok=True)
    path = os.path.join(outdir, "Sigs.lean")
    old = open(path).read() if os.path.exists(path) else None
    if old != text:
        with open(path, "w") as f: f.write(text)
    print(f"sigs2lean: {len(sigs)} signatures, {len(impls)} BumpAllocatorCoreScope impls, {len(asserts)} const-assert blocks, "
          f"{len(convs)} settings conversions, {len(vconvs)} value conversions, {len(structs)} structs, {len(autos)} explicit Send/Sync impls of handle types ({len(hands)} in the whole crate) -> {path}" + ("" if old != text else " (unchanged)"))

def main():
    if len(sys.argv) != 3:
        print("usage: sigs2lean.py <repo> <outdir>", file=sys.stderr); sys.exit(2)
    try:
        emit(sys.argv[1], sys.argv[2])
    except TErr as e:
        print(f"TRANSLATE-ERROR {e}", file=sys.stderr); sys.exit(2)

if __name__ == "__main__":
    main()
