#!/usr/bin/env python3
"""
rs2lean.py — translate the pure, `core`-only, loop-free arithmetic of bump-scope
(`src/bumping.rs`, `src/chunk/size_config.rs`, the align helpers of `src/lib.rs`)
into Lean 4 definitions in the monad `Rs.M := Except Rs.Err`.

It is a hand-written recursive-descent parser for exactly the Rust subset these
files use (DESIGN.md §3.2 / A.5).  ANYTHING ELSE IS A HARD ERROR: the translator
never skips a construct silently.  `usize` arithmetic becomes the *checked*
operators of `Rs.lean`; `debug_assert!` becomes `Rs.assert`.

usage: rs2lean.py <repo-root> <out-dir>
exit status 0 on success; 2 with a message `TRANSLATE-ERROR file:line: msg` otherwise.
"""
import re, sys, os, hashlib

class TErr(Exception):
    pass

# ----------------------------------------------------------------------------
# tokenizer

TOK_RE = re.compile(r"""
   (?P<ws>\s+)
 | (?P<lc>//[^\n]*)
 | (?P<bc>/\*.*?\*/)
 | (?P<str>"(?:\\.|[^"\\])*")
 | (?P<num>0x[0-9a-fA-F_]+|[0-9][0-9_]*)(?P<suf>usize|isize|u8|u32|u64|i128|i64)?
 | (?P<life>'[A-Za-z_][A-Za-z0-9_]*(?!'))
 | (?P<id>[A-Za-z_][A-Za-z0-9_]*)
 | (?P<op>\.\.=|\.\.|::|->|=>|==|!=|<=|>=|&&|\|\||\+=|-=|\*=|<<|>>|[-+*/%&|^!<>=.,;:(){}\[\]#?$@])
""", re.X | re.S)

class Tok:
    __slots__ = ("k", "v", "line")
    def __init__(s, k, v, line): s.k, s.v, s.line = k, v, line
    def __repr__(s): return f"{s.k}:{s.v}@{s.line}"

def tokenize(src, fname):
    toks, i, line = [], 0, 1
    while i < len(src):
        m = TOK_RE.match(src, i)
        if not m:
            raise TErr(f"{fname}:{line}: cannot tokenize {src[i:i+20]!r}")
        text = m.group(0)
        if m.lastgroup in ("ws", "lc", "bc") or m.group("ws") or m.group("lc") or m.group("bc"):
            pass
        elif m.group("str") is not None:
            toks.append(Tok("str", m.group("str"), line))
        elif m.group("num") is not None:
            toks.append(Tok("num", int(m.group("num").replace("_", ""), 0), line))
        elif m.group("life") is not None:
            toks.append(Tok("life", m.group("life"), line))
        elif m.group("id") is not None:
            toks.append(Tok("id", m.group("id"), line))
        else:
            toks.append(Tok("op", m.group("op"), line))
        line += text.count("\n")
        i = m.end()
    toks.append(Tok("eof", None, line))
    return toks

# ----------------------------------------------------------------------------
# AST (tuples: (kind, line, ...))

class Parser:
    def __init__(s, toks, fname):
        s.t, s.i, s.f = toks, 0, fname
    def peek(s, o=0): return s.t[s.i + o]
    def err(s, msg, tok=None):
        tok = tok or s.peek()
        raise TErr(f"{s.f}:{tok.line}: {msg} (at {tok.v!r})")
    def at(s, v, o=0):
        t = s.peek(o); return t.k in ("op", "id") and t.v == v
    def eat(s, v):
        if s.at(v): s.i += 1; return True
        return False
    def expect(s, v):
        if not s.eat(v): s.err(f"expected {v!r}")
    def ident(s):
        t = s.peek()
        if t.k != "id": s.err("expected identifier")
        s.i += 1; return t.v

    # -- skipping helpers
    def skip_balanced(s, open_, close):
        s.expect(open_); d = 1
        while d:
            t = s.peek()
            if t.k == "eof": s.err("unbalanced")
            if t.k == "op" and t.v == open_: d += 1
            if t.k == "op" and t.v == close: d -= 1
            s.i += 1
    def skip_attrs(s):
        while s.at("#"):
            s.i += 1; s.eat("!"); s.skip_balanced("[", "]")

    # -- types (kept as strings, only a few matter)
    def ty(s):
        if s.eat("&"):
            if s.peek().k == "life": s.i += 1
            s.eat("mut"); return s.ty()
        if s.eat("("):
            if s.eat(")"): return "unit"
            s.err("tuple types unsupported")
        name = s.ident()
        while s.eat("::"): name = s.ident()
        if s.eat("<"):
            args = [s.ty()]
            while s.eat(","): args.append(s.ty())
            if s.at(">>"):
                s.peek().v = ">"          # split `>>` closing two generic lists
            else:
                s.expect(">")
            if name == "Option": return ("opt", args[0])
            if name == "Range": return "range"
            s.err(f"generic type {name} unsupported")
        m = {"usize": "usize", "bool": "bool", "isize": "isize", "Layout": "Layout",
             "NonZeroUsize": "usize", "Self": "Self"}
        return m.get(name, ("struct", name))

    # -- items
    def fn_item(s, self_ty):
        """at `fn`"""
        line = s.peek().line
        s.expect("fn"); name = s.ident(); s.expect("(")
        params = []
        while not s.at(")"):
            mut = False
            if s.eat("&"): s.eat("mut")
            if s.eat("mut"): mut = True
            pn = s.ident()
            if pn == "self":
                params.append(("self", ("struct", self_ty), mut))
            else:
                s.expect(":"); t = s.ty(); params.append((pn, t, mut))
            if not s.eat(","): break
        s.expect(")")
        ret = "unit"
        if s.eat("->"): ret = s.ty()
        if ret == "Self": ret = ("struct", self_ty)
        body = s.block()
        return ("fn", line, name, params, ret, body, self_ty)

    def struct_item(s):
        line = s.peek().line
        s.expect("struct"); name = s.ident(); s.expect("{")
        fields = []
        while not s.at("}"):
            s.skip_attrs()
            if s.eat("pub"):
                if s.at("("): s.skip_balanced("(", ")")
            fn = s.ident(); s.expect(":"); ft = s.ty(); fields.append((fn, ft))
            if not s.eat(","): break
        s.expect("}")
        return ("struct", line, name, fields)

    # -- blocks & statements
    def block(s):
        line = s.peek().line
        s.expect("{"); stmts = []; tail = None
        while not s.at("}"):
            s.skip_attrs()
            if s.eat(";"): continue
            if s.at("let"):
                stmts.append(s.let_stmt()); continue
            if s.at("const"):
                l = s.peek().line
                s.i += 1; n = s.ident(); s.expect(":"); t = s.ty(); s.expect("="); e = s.expr(); s.expect(";")
                stmts.append(("let", l, ("bind", n, False), e, None)); continue
            e = s.expr_stmt()
            if s.eat(";"):
                stmts.append(("expr", e[1], e))
            elif s.at("}"):
                tail = e
            elif e[0] in ("if", "iflet", "match", "block"):
                stmts.append(("expr", e[1], e))
            else:
                s.err("expected `;` or `}`")
        s.expect("}")
        return ("block", line, stmts, tail)

    def pattern(s):
        # ident | mut ident | _ | Some(pat) | None | Struct { f, mut f, f: _, .. }
        if s.eat("mut"): return ("bind", s.ident(), True)
        t = s.peek()
        if t.k != "id": s.err("pattern")
        name = s.ident()
        if name == "_": return ("wild",)
        if name == "Some":
            s.expect("("); p = s.pattern(); s.expect(")"); return ("some", p)
        if name == "None": return ("none",)
        if s.at("{"):
            s.i += 1; fs = []
            while not s.at("}"):
                if s.eat(".."): break
                m = s.eat("mut"); fn = s.ident()
                if s.eat(":"):
                    p = s.pattern(); fs.append((fn, p))
                else:
                    fs.append((fn, ("bind", fn, bool(m))))
                if not s.eat(","): break
            s.expect("}")
            return ("structpat", name, fs)
        return ("bind", name, False)

    def let_stmt(s):
        line = s.peek().line
        s.expect("let"); p = s.pattern()
        if s.eat(":"): s.ty()
        init = None; els = None
        if s.eat("="):
            init = s.expr()
            if s.at("else"):
                s.i += 1; els = s.block()
        s.expect(";")
        return ("let", line, p, init, els)

    def expr_stmt(s):
        return s.expr()

    # -- expressions (Pratt)
    BIN = {"||": 1, "&&": 2, "==": 3, "!=": 3, "<": 3, ">": 3, "<=": 3, ">=": 3,
           "|": 4, "^": 5, "&": 6, "<<": 7, ">>": 7, "+": 8, "-": 8, "*": 9, "/": 9, "%": 9}
    def expr(s, nostruct=False, minp=0):
        line = s.peek().line
        if s.at("return"):
            s.i += 1
            if s.at(";") or s.at("}"): return ("return", line, None)
            return ("return", line, s.expr())
        lhs = s.unary(nostruct)
        while True:
            t = s.peek()
            if t.k == "op" and t.v in ("..", "..=") and minp == 0:
                s.i += 1; rhs = s.expr(nostruct, 1)
                lhs = ("range", line, lhs, rhs, t.v == "..="); continue
            if t.k == "op" and t.v in ("=", "+=", "-=", "*=") and minp == 0:
                s.i += 1; rhs = s.expr(nostruct, 0)
                return ("assign", line, t.v, lhs, rhs)
            if t.k == "id" and t.v == "as":
                s.i += 1; ty = s.ty(); lhs = ("cast", line, lhs, ty); continue
            if t.k == "op" and t.v in s.BIN and s.BIN[t.v] >= max(minp, 1):
                p = s.BIN[t.v]; s.i += 1
                rhs = s.expr(nostruct, p + 1)
                lhs = ("bin", line, t.v, lhs, rhs); continue
            return lhs

    def unary(s, nostruct):
        line = s.peek().line
        if s.eat("!"): return ("not", line, s.unary(nostruct))
        if s.eat("-"): return ("neg", line, s.unary(nostruct))
        if s.eat("*"): return s.unary(nostruct)          # deref: identity on our value model
        if s.eat("&"):
            s.eat("mut"); return s.unary(nostruct)       # borrow: identity
        return s.postfix(s.primary(nostruct))

    def postfix(s, e):
        while True:
            line = s.peek().line
            if s.eat("?"):
                e = ("try", line, e); continue
            if s.at("."):
                s.i += 1
                if s.peek().k == "num":
                    s.err("tuple field unsupported")
                name = s.ident()
                if s.at("::"):
                    s.i += 1; s.expect("<"); s.ty(); s.expect(">")
                if s.at("("):
                    args = s.args(); e = ("mcall", line, e, name, args)
                else:
                    e = ("field", line, e, name)
                continue
            return e

    def args(s):
        s.expect("("); a = []
        while not s.at(")"):
            a.append(s.expr())
            if not s.eat(","): break
        s.expect(")"); return a

    def primary(s, nostruct):
        t = s.peek(); line = t.line
        if t.k == "num": s.i += 1; return ("num", line, t.v)
        if s.eat("("):
            e = s.expr(); s.expect(")"); return ("paren", line, e)
        if s.at("{"): return s.block()
        if s.at("unsafe"): s.err("unsafe block in a file that must be forbid(unsafe_code)")
        if s.at("if"):
            s.i += 1
            if s.eat("let"):
                p = s.pattern(); s.expect("="); scrut = s.expr(nostruct=True)
                th = s.block(); el = None
                if s.eat("else"):
                    el = s.primary(nostruct) if s.at("if") else s.block()
                return ("iflet", line, p, scrut, th, el)
            c = s.expr(nostruct=True); th = s.block(); el = None
            if s.eat("else"):
                el = s.primary(nostruct) if s.at("if") else s.block()
            return ("if", line, c, th, el)
        if s.at("match"):
            s.i += 1; scrut = s.expr(nostruct=True); s.expect("{"); arms = []
            while not s.at("}"):
                p = s.pattern(); s.expect("=>"); b = s.expr(); arms.append((p, b))
                if not s.eat(","):
                    if not s.at("}") and b[0] != "block": s.err("expected , in match")
            s.expect("}")
            return ("match", line, scrut, arms)
        if t.k == "id":
            if t.v in ("true", "false"): s.i += 1; return ("bool", line, t.v == "true")
            if t.v in ("while", "for", "loop"):
                s.err("loops are outside the translated subset")
            path = [s.ident()]
            while s.at("::"):
                s.i += 1
                if s.eat("<"):
                    s.ty(); s.expect(">"); continue
                path.append(s.ident())
            if s.at("!"):
                # macro call
                s.i += 1
                close = {"(": ")", "[": "]", "{": "}"}[s.peek().v]
                op = s.peek().v; s.i += 1
                margs = []
                while not s.at(close):
                    if s.peek().k == "str":
                        s.i += 1; margs.append(("str", line))
                    else:
                        margs.append(s.expr())
                    if not s.eat(","): break
                s.expect(close)
                return ("macro", line, path[-1], margs)
            if s.at("("):
                return ("call", line, path, s.args())
            if s.at("{") and not nostruct and path[-1][0].isupper():
                s.i += 1; fs = []
                while not s.at("}"):
                    fn = s.ident()
                    if s.eat(":"): fs.append((fn, s.expr()))
                    else: fs.append((fn, ("path", line, [fn])))
                    if not s.eat(","): break
                s.expect("}")
                return ("structlit", line, path[-1], fs)
            return ("path", line, path)
        s.err("unexpected token in expression")

# ----------------------------------------------------------------------------
# finding items in a file

def find_items(src, fname, want_fns, want_structs=(), want_consts=()):
    toks = tokenize(src, fname)
    p = Parser(toks, fname)
    items = {}
    # scan for `impl Name {` to know Self for methods; track brace depth roughly
    impl_stack = []   # (depth, name)
    depth = 0
    i = 0
    while toks[i].k != "eof":
        t = toks[i]
        if t.k == "id" and t.v == "macro_rules":
            # skip macro definition body
            p.i = i + 1; p.expect("!"); p.ident(); p.skip_balanced("{", "}"); i = p.i; continue
        if t.k == "op" and t.v == "{": depth += 1
        if t.k == "op" and t.v == "}":
            depth -= 1
            if impl_stack and impl_stack[-1][0] == depth: impl_stack.pop()
        if t.k == "id" and t.v == "impl" and toks[i+1].k == "id" and toks[i+2].k == "op" and toks[i+2].v == "{":
            impl_stack.append((depth, toks[i+1].v))
        if t.k == "id" and t.v == "fn" and toks[i+1].k == "id" and toks[i+1].v in want_fns:
            p.i = i
            item = p.fn_item(impl_stack[-1][1] if impl_stack else None)
            if item[2] in items: raise TErr(f"{fname}:{t.line}: duplicate fn {item[2]}")
            items[item[2]] = item
            i = p.i; continue
        if t.k == "id" and t.v == "struct" and toks[i+1].k == "id" and toks[i+1].v in want_structs:
            p.i = i; item = p.struct_item(); items[item[2]] = item; i = p.i; continue
        if t.k == "id" and t.v == "const" and toks[i+1].k == "id" and toks[i+1].v in want_consts:
            p.i = i + 1; n = p.ident(); p.expect(":"); p.ty(); p.expect("="); e = p.expr(); p.expect(";")
            items[n] = ("const", t.line, n, e); i = p.i; continue
        i += 1
    for n in list(want_fns) + list(want_structs) + list(want_consts):
        if n not in items:
            raise TErr(f"{fname}:1: item `{n}` not found (renamed or removed?)")
    return items

# ----------------------------------------------------------------------------
# emitter

LEAN_KW = {"end", "from", "at", "in", "then", "else", "do", "have", "show", "fun", "open", "where",
           "if", "let", "match", "with", "by", "calc", "def", "theorem", "structure", "local", "section"}
def lid(n):
    return f"«{n}»" if n in LEAN_KW else n

DEFAULTS = {"usize": ("Nat", "0"), "bool": ("Bool", "false"), "isize": ("Int", "0")}
def lean_ty(t):
    if t == "usize": return "Nat"
    if t == "bool": return "Bool"
    if t == "isize": return "Int"
    if t == "Layout": return "Layout"
    if t == "range": return "(Nat × Nat)"
    if t == "unit": return "Unit"
    if isinstance(t, tuple) and t[0] == "opt": return f"(Option {lean_ty(t[1])})"
    if isinstance(t, tuple) and t[0] == "struct": return t[1]
    raise TErr(f"no Lean type for {t}")
def default_of(t):
    if t in DEFAULTS: return DEFAULTS[t][1]
    if isinstance(t, tuple) and t[0] == "opt": return "none"
    if t == "range": return "(0, 0)"
    raise TErr(f"no default value for type {t}")

class FnEmitter:
    """Translates one fn body to Lean `do` text."""
    def __init__(s, unit, fn):
        s.u = unit; s.fn = fn; s.fname = unit.fname
        s.lines = []; s.ind = 1
        s.env = [{}]           # scopes: rust name -> (lean name, type, mutable)
        s.used = set()         # lean names used in this fn
        s.tmp = 0
        s.ret_ty = fn[4]

    def err(s, line, msg): raise TErr(f"{s.fname}:{line}: {msg}")
    def out(s, text): s.lines.append("  " * s.ind + text)
    def fresh(s, base):
        if base in ("some", "none", "true", "false", "max", "min"): base = base + "_v"
        n = base; k = 0
        while n in s.used:
            k += 1; n = f"{base}_{k}"
        s.used.add(n); return n
    def newtmp(s):
        n = f"t{s.tmp}"; s.tmp += 1
        while n in s.used:
            n = f"t{s.tmp}"; s.tmp += 1
        s.used.add(n); return n
    def declare(s, rname, ty, mut):
        ln = s.fresh(rname); s.env[-1][rname] = (ln, ty, mut); return lid(ln)
    def lookup(s, rname, line):
        for sc in reversed(s.env):
            if rname in sc: return sc[rname]
        if rname in s.u.consts: return (rname, "usize", False)
        s.err(line, f"unknown variable `{rname}`")
    def push(s): s.env.append({})
    def pop(s): s.env.pop()

    # ---- expressions: returns (lean_text, type); may emit prelude statements
    def atom(s, txt):
        return txt if re.fullmatch(r"[\w«».']+", txt) else f"({txt})"

    def ex(s, e):
        k, line = e[0], e[1]
        if k == "num": return (str(e[2]), "usize")
        if k == "bool": return ("true" if e[2] else "false", "bool")
        if k == "paren": return s.ex(e[2])
        if k == "path":
            p = e[2]
            if len(p) == 1:
                ln, ty, _ = s.lookup(p[0], line); return (lid(ln), ty)
            if p[-1] in s.u.consts: return (p[-1], "usize")
            if p == ["isize", "MAX"]: return ("Rs.IMAX", "usize")
            if p == ["usize", "MAX"]: return ("Rs.MAX", "usize")
            s.err(line, f"unsupported path {'::'.join(p)}")
        if k == "field":
            b, bt = s.ex(e[2]); f = e[3]
            if isinstance(bt, tuple) and bt[0] == "struct":
                st = s.u.structs.get(bt[1])
                if not st: s.err(line, f"unknown struct {bt[1]}")
                for fn, ft in st:
                    if fn == f: return (f"{s.atom(b)}.{lid(fn)}", ft)
                s.err(line, f"no field {f} in {bt[1]}")
            if bt == "range" and f in ("start", "end"):
                return (f"{s.atom(b)}.{1 if f=='start' else 2}", "usize")
            s.err(line, f"field access .{f} on {bt}")
        if k == "not":
            a, t = s.ex(e[2])
            if t == "bool": return (f"!{s.atom(a)}", "bool")
            if t == "usize": return (f"Rs.bnot {s.atom(a)}", "usize")
            s.err(line, f"`!` on {t}")
        if k == "cast":
            a, t = s.ex(e[2])
            if t == "usize" and e[3] == "isize": return (f"Rs.as_isize {s.atom(a)}", "isize")
            if t == "usize" and e[3] == "usize": return (a, "usize")
            s.err(line, f"unsupported cast {t} as {e[3]}")
        if k == "bin": return s.binop(e)
        if k == "mcall": return s.mcall(e)
        if k == "call": return s.call(e)
        if k == "macro":
            if e[2] == "attempt":
                v, t = s.ex(e[3][0])
                if not (isinstance(t, tuple) and t[0] == "opt"): s.err(line, "attempt! on non-Option")
                n = s.newtmp(); s.out(f"let some {n} := {v} | return none"); return (n, t[1])
            s.err(line, f"macro {e[2]}! in expression position")
        if k == "try":
            v, t = s.ex(e[2])
            if not (isinstance(t, tuple) and t[0] == "opt"): s.err(line, "? on non-Option")
            n = s.newtmp(); s.out(f"let some {n} := {v} | return none"); return (n, t[1])
        if k == "range":
            a, _ = s.ex(e[2]); b, _ = s.ex(e[3])
            if e[4]: s.err(line, "inclusive range")
            return (f"({a}, {b})", "range")
        if k == "structlit":
            st = s.u.structs.get(e[2])
            if not st: s.err(line, f"unknown struct {e[2]}")
            parts = []
            for fn, fe in e[3]:
                v, _ = s.ex(fe); parts.append(f"{lid(fn)} := {v}")
            return ("{ " + ", ".join(parts) + f" : {e[2]} }}", ("struct", e[2]))
        if k in ("if", "iflet", "match", "block"):
            return s.value_of_control(e)
        s.err(line, f"unsupported expression kind {k}")

    def is_pure(s, e):
        """no checked operator / call / early exit inside (so it can be evaluated unconditionally)"""
        k = e[0]
        if k in ("num", "bool", "path"): return True
        if k in ("paren", "not"): return s.is_pure(e[2])
        if k == "cast": return s.is_pure(e[2])
        if k == "field": return s.is_pure(e[2])
        if k == "bin":
            if e[2] in ("+", "-", "*", "%", "/"): return False
            return s.is_pure(e[3]) and s.is_pure(e[4])
        if k == "mcall":
            if e[3] in ("size", "align", "get", "is_power_of_two", "max", "saturating_add", "saturating_sub",
                        "wrapping_sub", "wrapping_add", "checked_add", "checked_sub", "checked_mul",
                        "checked_next_power_of_two"):
                return s.is_pure(e[2]) and all(s.is_pure(a) for a in e[4])
            return False
        return False

    def binop(s, e):
        _, line, op, l, r = e
        if op in ("&&", "||"):
            a, ta = s.ex(l)
            if ta != "bool": s.err(line, f"{op} on {ta}")
            if s.is_pure(r):
                b, tb = s.ex(r); return (f"{s.atom(a)} {op} {s.atom(b)}", "bool")
            # short-circuit with effects on the right: guard them
            n = s.newtmp()
            s.out(f"let mut {n} : Bool := {'false' if op == '&&' else 'true'}")
            s.out(f"if {a if op == '&&' else '!' + s.atom(a)} then"); s.ind += 1
            b, tb = s.ex(r); s.out(f"{n} := {b}"); s.ind -= 1
            return (n, "bool")
        a, ta = s.ex(l); b, tb = s.ex(r)
        if op in ("==", "!=", "<", ">", "<=", ">="):
            if ta != tb: s.err(line, f"comparison of {ta} with {tb}")
            lop = {"==": "=", "!=": "≠", "<": "<", ">": ">", "<=": "≤", ">=": "≥"}[op]
            if ta == "bool" and op in ("==", "!="):
                return (f"{s.atom(a)} {'==' if op=='==' else '!='} {s.atom(b)}", "bool")
            return (f"decide ({a} {lop} {b})", "bool")
        if ta != "usize" or tb != "usize": s.err(line, f"arithmetic {op} on {ta},{tb}")
        if op in ("+", "-", "*", "%"):
            f = {"+": "Rs.add", "-": "Rs.sub", "*": "Rs.mul", "%": "Rs.rem"}[op]
            n = s.newtmp(); s.out(f"let {n} ← {f} {s.atom(a)} {s.atom(b)}"); return (n, "usize")
        if op == "&": return (f"Rs.band {s.atom(a)} {s.atom(b)}", "usize")
        s.err(line, f"unsupported operator {op}")

    def mcall(s, e):
        _, line, recv, name, args = e
        r, rt = s.ex(recv)
        av = [s.ex(a) for a in args]
        a = [s.atom(x[0]) for x in av]
        if rt == "Layout" and name in ("size", "align") and not args:
            return (f"{s.atom(r)}.{name}", "usize")
        if rt == "usize":
            if name == "get" and not args: return (r, "usize")
            if name in ("saturating_add", "saturating_sub", "wrapping_sub", "wrapping_add", "max") and len(a) == 1:
                return (f"Rs.{name} {s.atom(r)} {a[0]}", "usize")
            if name in ("checked_add", "checked_sub", "checked_mul") and len(a) == 1:
                return (f"Rs.{name} {s.atom(r)} {a[0]}", ("opt", "usize"))
            if name == "checked_next_power_of_two" and not a:
                return (f"Rs.checked_next_power_of_two {s.atom(r)}", ("opt", "usize"))
            if name == "is_power_of_two" and not a:
                return (f"Rs.is_power_of_two {s.atom(r)}", "bool")
        if isinstance(rt, tuple) and rt[0] == "struct" and name in s.u.fns:
            fn = s.u.fns[name]
            n = s.newtmp(); s.out(f"let {n} ← {lid(name)} {s.atom(r)} {' '.join(a)}".rstrip())
            return (n, fn[4])
        s.err(line, f"unsupported method .{name}() on {rt}")

    def call(s, e):
        _, line, path, args = e
        name = path[-1]
        if path == ["Some"]:
            v, t = s.ex(args[0]); return (f"some {s.atom(v)}", ("opt", t))
        if path == ["NonZeroUsize", "new"]:
            v, t = s.ex(args[0]); return (f"Rs.nonZero {s.atom(v)}", ("opt", "usize"))
        if path == ["unlikely"]:
            return s.ex(args[0])
        if len(path) == 1 and name in s.u.fns:
            fn = s.u.fns[name]
            a = [s.atom(s.ex(x)[0]) for x in args]
            n = s.newtmp(); s.out(f"let {n} ← {lid(name)} {' '.join(a)}".rstrip())
            return (n, fn[4])
        s.err(line, f"unsupported call {'::'.join(path)}")

    def value_of_control(s, e):
        """`if`/`match`/block used as a value: evaluate into a fresh mutable temp."""
        k, line = e[0], e[1]
        if k == "block":
            s.push()
            for st in e[2]: s.stmt(st)
            if e[3] is None: s.err(line, "block value without tail")
            v = s.ex(e[3]); s.pop(); return v
        if k == "match":
            # only `match x { Some(v) => v, None => return None }`
            scrut, arms = e[2], e[3]
            if (len(arms) == 2 and arms[0][0][0] == "some" and arms[0][0][1][0] == "bind"
                    and arms[1][0] == ("none",) and arms[0][1][0] == "path"
                    and arms[0][1][2] == [arms[0][0][1][1]]):
                v, t = s.ex(scrut)
                n = s.newtmp()
                s.out(f"let some {n} := {v}"); s.ind += 1
                s.out("| do"); s.ind += 1
                s.diverge(arms[1][1]); s.ind -= 2
                return (n, t[1])
            s.err(line, "unsupported match shape in value position")
        # if / iflet: need type of branches -> evaluate into temp
        n = s.newtmp()
        mark = len(s.lines)
        s.out(f"PLACEHOLDER {n}")
        ty = [None]
        def branch(b):
            if b is None: s.err(line, "if without else used as a value")
            s.ind += 1
            if b[0] in ("if", "iflet"):
                v, t = s.value_of_control(b)
            else:
                s.push()
                for st in b[2]: s.stmt(st)
                if b[3] is None:
                    if s.diverged_block(b): s.pop(); s.ind -= 1; return
                    s.err(line, "branch without value")
                v, t = s.ex(b[3]); s.pop()
            ty[0] = t
            s.out(f"{n} := {v}"); s.ind -= 1
        if k == "if":
            c, ct = s.ex(e[2])
            s.out(f"if {c} then"); branch(e[3]); s.out("else"); branch(e[4])
        else:
            p, scrut = e[2], e[3]
            if p[0] != "some" or p[1][0] != "bind": s.err(line, "if-let pattern")
            v, t = s.ex(scrut)
            s.out(f"match {v} with")
            s.push(); ln = s.declare(p[1][1], t[1], False)
            s.out(f"| some {ln} =>"); branch(e[4]); s.pop()
            s.out("| none =>"); branch(e[5])
        if ty[0] is None: s.err(line, "could not type control-flow value")
        s.lines[mark] = s.lines[mark].replace(f"PLACEHOLDER {n}", f"let mut {n} : {lean_ty(ty[0])} := {default_of(ty[0])}")
        return (n, ty[0])

    def diverged_block(s, b):
        """block whose last statement is a `return` (already emitted)"""
        if b[2] and b[2][-1][0] == "expr" and b[2][-1][2][0] == "return": return True
        return False

    def diverge(s, e):
        """emit an expression that must end in `return`"""
        if e[0] == "return": s.ret(e); return
        if e[0] == "block":
            for st in e[2]: s.stmt(st)
            if e[3] is not None: s.diverge(e[3])
            elif not s.diverged_block(e): s.err(e[1], "else-branch does not diverge")
            return
        s.err(e[1], "expected a diverging expression")

    def ret(s, e):
        line = e[1]
        if e[2] is None: s.out("return ()"); return
        if e[2][0] == "path" and e[2][2] == ["None"]: s.out("return none"); return
        v, t = s.ex(e[2]); s.out(f"return {v}")

    # ---- statements
    def stmt(s, st):
        k, line = st[0], st[1]
        if k == "let": return s.let(st)
        e = st[2]
        ek = e[0]
        if ek == "return": return s.ret(e)
        if ek == "assign": return s.assign(e)
        if ek == "macro": return s.macro_stmt(e)
        if ek == "if":
            c, _ = s.ex(e[2])
            s.out(f"if {c} then"); s.branch_stmt(e[3])
            if e[4] is not None:
                s.out("else"); s.branch_stmt(e[4])
            return
        if ek == "block":
            s.push()
            for x in e[2]: s.stmt(x)
            if e[3] is not None: s.stmt(("expr", e[3][1], e[3]))
            s.pop(); return
        if ek == "call" and e[2] == ["cold"]: return
        if ek == "mcall" and e[3] == "debug_assert_valid":
            r, _ = s.ex(e[2]); a = " ".join(s.atom(s.ex(x)[0]) for x in e[4])
            s.out(f"debug_assert_valid {s.atom(r)} {a}"); return
        s.err(line, f"unsupported statement ({ek})")

    def branch_stmt(s, b):
        s.ind += 1; n0 = len(s.lines)
        if b[0] in ("if",):
            s.stmt(("expr", b[1], b))
        else:
            s.push()
            for x in b[2]: s.stmt(x)
            if b[3] is not None: s.stmt(("expr", b[3][1], b[3]))
            s.pop()
        if len(s.lines) == n0: s.out("pure ()")
        s.ind -= 1

    def let(s, st):
        _, line, pat, init, els = st
        if pat[0] == "bind":
            name, mut = pat[1], pat[2]
            if init is None:
                ln = s.declare(name, "usize", True)
                s.out(f"let mut {ln} : Nat := 0"); return
            if els is not None: s.err(line, "let-else with plain binding")
            v, t = s.ex(init)
            ln = s.declare(name, t, mut)
            s.out(f"let {'mut ' if mut else ''}{ln} := {v}"); return
        if pat[0] == "some":
            # let Some(x) = e else { diverge };
            if els is None or pat[1][0] != "bind": s.err(line, "let Some(..) needs else")
            v, t = s.ex(init)
            ln = s.declare(pat[1][1], t[1], False)
            s.out(f"let some {ln} := {v}"); s.ind += 1
            s.out("| do"); s.ind += 1
            s.diverge(els); s.ind -= 2; return
        if pat[0] == "structpat":
            v, t = s.ex(init)
            st_fields = s.u.structs.get(pat[1] if pat[1] != "Self" else t[1])
            if st_fields is None: s.err(line, f"unknown struct {pat[1]}")
            ftypes = dict(st_fields)
            for fn, p in pat[2]:
                if fn not in ftypes: s.err(line, f"no field {fn}")
                if p[0] == "wild": continue
                if p[0] != "bind": s.err(line, "nested pattern")
                ln = s.declare(p[1], ftypes[fn], p[2])
                s.out(f"let {'mut ' if p[2] else ''}{ln} := {s.atom(v)}.{lid(fn)}")
            return
        s.err(line, f"unsupported let pattern {pat[0]}")

    def assign(s, e):
        _, line, op, lhs, rhs = e
        if lhs[0] != "path" or len(lhs[2]) != 1: s.err(line, "assignment target")
        ln, ty, mut = s.lookup(lhs[2][0], line)
        if not mut: s.err(line, f"assignment to immutable {lhs[2][0]}")
        if op == "=":
            v, t = s.ex(rhs); s.out(f"{lid(ln)} := {v}"); return
        v, t = s.ex(rhs)
        f = {"+=": "Rs.add", "-=": "Rs.sub", "*=": "Rs.mul"}[op]
        s.out(f"{lid(ln)} ← {f} {lid(ln)} {s.atom(v)}")

    def macro_stmt(s, e):
        _, line, name, args = e
        args = [a for a in args]
        def val(a): return s.ex(a)[0]
        if name == "debug_assert":
            s.out(f"Rs.assert ({val(args[0])})"); return
        if name in ("debug_assert_eq", "debug_assert_ne"):
            a, ta = s.ex(args[0]); b, tb = s.ex(args[1])
            s.out(f"Rs.assert (decide ({a} {'=' if name.endswith('eq') else '≠'} {b}))"); return
        if name == "debug_assert_aligned":
            a = val(args[0]); al = val(args[1])
            s.out(f"Rs.assert (Rs.is_power_of_two {s.atom(al)})")
            n = s.newtmp(); s.out(f"let {n} ← Rs.sub {s.atom(al)} 1")
            s.out(f"Rs.assert (decide (Rs.band {s.atom(a)} {n} = 0))"); return
        if name in ("debug_assert_ge", "debug_assert_le"):
            a = val(args[0]); b = val(args[1])
            s.out(f"Rs.assert (decide ({a} {'≥' if name.endswith('ge') else '≤'} {b}))"); return
        if name == "attempt":
            s.ex(e); return
        s.err(line, f"unsupported macro {name}!")

    # ---- whole fn
    def emit(s):
        _, line, name, params, ret, body, self_ty = s.fn
        ps = []
        muts = []
        for pn, pt, mut in params:
            ln = s.declare(pn, pt, False)
            ps.append(f"({ln} : {lean_ty(pt)})")
            if mut: muts.append(pn)
        hdr = f"def {lid(name)} {' '.join(ps)} : M {lean_ty(ret)} := do"
        for pn in muts:
            old = s.lookup(pn, line)
            s.env[-1][pn] = (old[0], old[1], True)
            s.out(f"let mut {lid(old[0])} := {lid(old[0])}")
        for st in body[2]: s.stmt(st)
        if body[3] is not None:
            s.tail(body[3])
        elif ret == "unit":
            s.out("return ()")
        return hdr + "\n" + "\n".join(s.lines)

    def tail(s, e):
        k = e[0]
        if k == "if":
            c, _ = s.ex(e[2])
            s.out(f"if {c} then"); s.ind += 1; s.tail_block(e[3]); s.ind -= 1
            s.out("else"); s.ind += 1
            if e[4] is None: s.err(e[1], "tail if without else")
            if e[4][0] == "if": s.tail(e[4])
            else: s.tail_block(e[4])
            s.ind -= 1; return
        if k == "block":
            s.tail_block(e); return
        if k == "path" and e[2] == ["None"]:
            s.out("return none"); return
        if k == "return": s.ret(e); return
        if k == "mcall" and e[3] in s.u.fns:
            # tail call of a translated method: its result is our result
            v, t = s.ex(e); s.out(f"return {v}"); return
        v, t = s.ex(e)
        s.out(f"return {v}")

    def tail_block(s, b):
        s.push()
        for st in b[2]: s.stmt(st)
        if b[3] is not None: s.tail(b[3])
        elif not s.diverged_block(b): s.err(b[1], "tail block without value")
        s.pop()

class Unit:
    def __init__(s, fname, namespace):
        s.fname = fname; s.ns = namespace
        s.structs = {}; s.fns = {}; s.consts = {}
        s.order = []

# Hand-written overrides (NOT translated; see DESIGN.md A.5). `debug_assert_valid`
# uses i128 and RangeInclusive; it is written by hand and differential-tested.
OVERRIDE_DEBUG_ASSERT_VALID = '''\
/-- HAND-WRITTEN OVERRIDE (not translated): `BumpProps::debug_assert_valid`.
    Differential-tested against the Rust method by `harness/purefn` (it must panic
    exactly when this throws). -/
def debug_assert_valid (self : BumpProps) (up : Bool) : M Unit := do
  Rs.assert (decide (self.start ≠ 0))
  Rs.assert (decide (self.«end» ≠ 0))
  Rs.assert (Rs.is_power_of_two self.min_align)
  Rs.assert (decide (self.min_align ≤ MIN_CHUNK_ALIGN))
  if self.size_is_multiple_of_align then
    let t0 ← Rs.rem self.layout.size self.layout.align
    Rs.assert (decide (t0 = 0))
  let is_dummy_chunk := decide (self.start > self.«end»)
  if is_dummy_chunk then
    let t1 ← Rs.add self.«end» 16
    Rs.assert (decide (self.start = t1))
    Rs.assert (decide (Rs.band self.start (MIN_CHUNK_ALIGN - 1) = 0))
    Rs.assert (decide (Rs.band self.«end» (MIN_CHUNK_ALIGN - 1) = 0))
  else
    Rs.assert (decide (self.start ≤ self.«end»))
    Rs.assert (decide (self.«end» - self.start ≤ Rs.IMAX))
    if up then
      Rs.assert (decide (Rs.band self.start (self.min_align - 1) = 0))
      Rs.assert (decide (Rs.band self.«end» (MIN_CHUNK_ALIGN - 1) = 0))
    else
      Rs.assert (decide (Rs.band self.start (MIN_CHUNK_ALIGN - 1) = 0))
      Rs.assert (decide (Rs.band self.«end» (self.min_align - 1) = 0))
  return ()
'''

def emit_unit(u, items, order, overrides=None, header_note=""):
    overrides = overrides or {}
    out = []
    out.append("/- GENERATED by /verif/translator/rs2lean.py — DO NOT EDIT.")
    out.append(f"   source: {u.fname}   {header_note}")
    out.append("-/")
    out.append("import BumpProof.Rs")
    out.append("set_option linter.unusedVariables false")
    out.append(f"namespace {u.ns}")
    out.append("open Rs")
    out.append("")
    for name in order:
        it = items.get(name)
        if name in overrides:
            out.append(overrides[name]); continue
        if it[0] == "const":
            fe = FnEmitter(u, ("fn", it[1], name, [], "usize", None, None))
            v, t = fe.ex(it[3])
            if fe.lines: raise TErr(f"{u.fname}:{it[1]}: const with effects")
            out.append(f"def {name} : Nat := {v}"); out.append(""); continue
        if it[0] == "struct":
            out.append(f"structure {name} where")
            for fn, ft in it[3]:
                out.append(f"  {lid(fn)} : {lean_ty(ft)}")
            out.append("  deriving Repr, DecidableEq, Inhabited"); out.append(""); continue
        if it[0] == "fn":
            out.append(f"/-- `{u.fname}` line {it[1]} -/")
            out.append(FnEmitter(u, it).emit()); out.append(""); continue
    out.append(f"end {u.ns}")
    return "\n".join(out) + "\n"

def translate(repo, outdir):
    os.makedirs(outdir, exist_ok=True)
    results = {}
    # ---- bumping.rs
    f = "src/bumping.rs"
    src = open(os.path.join(repo, f)).read()
    if "#![forbid(unsafe_code)]" not in src: raise TErr(f"{f}:1: file no longer forbids unsafe code")
    fns = ["down_align", "up_align_unchecked", "up_align", "bump_up", "bump_down", "bump_prepare_up", "bump_prepare_down"]
    items = find_items(src, f, fns + ["debug_assert_valid"], ["BumpProps", "BumpUp"], ["MIN_CHUNK_ALIGN"])
    u = Unit(f, "Gen.Bumping")
    u.consts = {"MIN_CHUNK_ALIGN": items["MIN_CHUNK_ALIGN"]}
    for n in ["BumpProps", "BumpUp"]: u.structs[n] = items[n][3]
    for n in fns: u.fns[n] = items[n]
    u.fns["debug_assert_valid"] = ("fn", 0, "debug_assert_valid", [], "unit", None, "BumpProps")
    order = ["MIN_CHUNK_ALIGN", "BumpProps", "BumpUp", "debug_assert_valid"] + fns
    results["Bumping.lean"] = emit_unit(u, items, order, {"debug_assert_valid": OVERRIDE_DEBUG_ASSERT_VALID})
    # ---- size_config.rs
    f = "src/chunk/size_config.rs"
    src = open(os.path.join(repo, f)).read()
    if "#![forbid(unsafe_code)]" not in src: raise TErr(f"{f}:1: file no longer forbids unsafe code")
    fns = ["max", "down_align", "up_align", "offset_add_layout", "align_size", "calc_size_from_hint",
           "calc_hint_from_capacity_bytes", "calc_hint_from_capacity"]
    items = find_items(src, f, fns, ["ChunkSizeConfig"], ["ASSUMED_PAGE_SIZE", "MIN_CHUNK_ALIGN"])
    u = Unit(f, "Gen.SizeConfig")
    u.consts = {"ASSUMED_PAGE_SIZE": items["ASSUMED_PAGE_SIZE"], "MIN_CHUNK_ALIGN": items["MIN_CHUNK_ALIGN"]}
    u.structs["ChunkSizeConfig"] = items["ChunkSizeConfig"][3]
    for n in fns: u.fns[n] = items[n]
    order = ["ASSUMED_PAGE_SIZE", "MIN_CHUNK_ALIGN", "ChunkSizeConfig"] + fns
    results["SizeConfig.lean"] = emit_unit(u, items, order)
    # ---- lib.rs helpers
    f = "src/lib.rs"
    src = open(os.path.join(repo, f)).read()
    fns = ["up_align_usize_unchecked", "down_align_usize", "bump_down", "min_non_zero_cap", "align_pos"]
    items = find_items(src, f, fns)
    u = Unit(f, "Gen.LibArith")
    for n in fns: u.fns[n] = items[n]
    results["LibArith.lean"] = emit_unit(u, items, fns)
    changed = []
    for name, text in results.items():
        path = os.path.join(outdir, name)
        old = open(path).read() if os.path.exists(path) else None
        if old != text:
            with open(path, "w") as fh: fh.write(text)
            changed.append(name)
    return results, changed

def main():
    repo, outdir = sys.argv[1], sys.argv[2]
    try:
        results, changed = translate(repo, outdir)
    except TErr as e:
        print(f"TRANSLATE-ERROR {e}")
        sys.exit(2)
    for n, t in results.items():
        print(f"generated {n} sha256={hashlib.sha256(t.encode()).hexdigest()[:16]} {'(changed)' if n in changed else '(unchanged)'}")

if __name__ == "__main__":
    main()
