// C04 finding (repaired in /repo 19ca7c2): the conversions `Stats -> AnyStats`, `Chunk -> AnyChunk`,
// `ChunkPrevIter -> AnyChunkPrevIter`, `ChunkNextIter -> AnyChunkNextIter` named two independent anonymous
// lifetimes, so the statistics of an arena could be kept (`'static`) after the arena was dropped.
// This program MUST NOT compile; on d843bd2 it compiled and `any.count()` read a freed chunk header.
use bump_scope::{Bump, stats::AnyStats};

fn main() {
    let any: AnyStats<'static> = {
        let bump: Bump = Bump::new();
        bump.alloc(1u8);
        bump.stats().into()
    };
    let _ = any.count();
}
