//! C04-a (known finding): `unsafe impl<'a, A, S> BumpAllocatorCoreScope<'a> for &'a mut Bump<A, S>`
//! (src/traits/bump_allocator_core_scope.rs) promises that allocations made through a `&'a mut Bump`
//! live for `'a`, but the holder of the `&'a mut Bump` can reborrow it for `reset()` during `'a`.
//! Safe code, compiles, and `x` is read after its memory was reused:
//!
//!   rustc --edition 2024 --extern bump_scope=<rlib> -L dependency=<deps> c04a_refmut_bump.rs && ./c04a_refmut_bump
//!   => XXXXXXXXXXXXXXXXXXXXXXXXXXXXX XXXXXXXXXXXXXXXXXXXXXXXXXXXXXXXXXXXXX
#![forbid(unsafe_code)]
use bump_scope::{Bump, traits::BumpAllocatorTypedScope};

fn main() {
    let mut bump: Bump = Bump::new();
    let bm: &mut Bump = &mut bump;
    let x = BumpAllocatorTypedScope::alloc_str(&bm, "hello world, this is a string");
    bm.reset();
    let y = bm.alloc_str("XXXXXXXXXXXXXXXXXXXXXXXXXXXXXXXXXXXXX");
    println!("{x} {y}");
}
