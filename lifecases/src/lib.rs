//! Prelude of the generated C04 programs: nothing but a `touch` function (a use of a value the
//! compiler cannot see through), base allocators that are not `Send` / not `Sync`, and settings aliases.
//! The generated programs themselves are `#![forbid(unsafe_code)]`.
use core::{alloc::Layout, cell::Cell, marker::PhantomData, ptr::NonNull};

pub use bump_scope::alloc::{AllocError, Allocator, Global};

/// a use of `x`
#[inline(never)]
pub fn touch<T: ?Sized>(x: &T) {
    core::hint::black_box(x);
}

macro_rules! forwarding_allocator {
    ($name:ident, $marker:ty, $doc:literal) => {
        #[doc = $doc]
        #[derive(Clone, Default, Debug)]
        pub struct $name(PhantomData<$marker>);

        unsafe impl Allocator for $name {
            fn allocate(&self, layout: Layout) -> Result<NonNull<[u8]>, AllocError> {
                Global.allocate(layout)
            }
            unsafe fn deallocate(&self, ptr: NonNull<u8>, layout: Layout) {
                unsafe { Global.deallocate(ptr, layout) }
            }
        }
    };
}

forwarding_allocator!(NoSend, *const (), "a base allocator that is neither `Send` nor `Sync`");
forwarding_allocator!(SendNoSync, Cell<()>, "a base allocator that is `Send` but not `Sync`");
